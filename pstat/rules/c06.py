"""C06 - Dice, IoU, RVD and clDice equal their set-theoretic definitions."""

from __future__ import annotations

import ast
from fractions import Fraction

from ..absval import Obj, Sym, Unknown, enumerate_paths
from ..model import AnchorMissing, Func, Undecided, norm, walk_no_nested
from ..poly import Poly, Rat
from ..report import Ctx
from ..variants import Variant
from .arrdom import AArr, AMask, ArrInterp, LabelKeys
from .common import make_metric_objs, metric_registry
from .resultrun import Tagged
from .vennrun import Count, N, Regions, VennInterp, _rat, path_substitution, path_zero_set, run_kernel, universe_xy, universe_xy_skel

INFO = {
    "explanation": "VENN domain: the kernels are interpreted over sets of Venn regions and exact rational functions of the region cardinalities a=|X\\Y|, b=|Y\\X|, i=|X∩Y| (plus skeleton regions for clDice). (R06.1-3) _compute_dice_coefficient, _compute_iou, _compute_relative_volume_difference equal 2i/((a+i)+(b+i)), i/(a+b+i), ((b+i)-(a+i))/(a+i) on every path wherever the quotient is defined; guarded constants are admissible only where the quotient is undefined or equal to them; (R06.4) clDice is the harmonic mean of |Y∩Sx|/|Sx| and |X∩Sy|/|Sy| with the 2-D/3-D skeleton of the right mask; (R06.5) label selection in _Metric.__call__ and the instance wrappers: reference mask = reference array == reference label, prediction mask = membership in the prediction label(s), labels not narrowed to the array dtype, selection iff both indices given; (R06.6) each Metric member reaches, through its registered wrapper, the kernel of its own formula (end-to-end evaluation), direction flags; (R06.7) derived identities D(1+J)=2J, symmetry, ranges, D>=J, D=J=1 iff a=b=0; (R06.8) no difference of counts is taken in a possibly unsigned numpy scalar. Further delegated: R10.3 (the crop applied before the kernels covers both masks), R15.1/R15.8 (nobody binarises the caller's arrays in place), R15.7 (no state kept in the metric wrapper). Round 7: label masks built by binary search (unique + searchsorted + take == arr) are isin masks iff the labels are sorted and unique; unions are compared as sets; a descending label list is among the cases. Round 8: (R15.8 kernel purity) a metric kernel - and whatever it calls - does not write into the masks it receives; kernels are found through the registry, their core functions through the wrappers. Round 9: the dtype kind of the caller's masks is an input class (b / u / i / f, narrowed by the tests made on it): np.sum without dtype= of a raw mask is an unsigned numpy scalar exactly in the class u, np.sum(dtype=int64) never; skeletonize on 3-D input is skeletonize_3d.",
    "trusted_base": ["numpy primitives of DESIGN appendix A.2 on boolean/0-1 masks", "skimage skeletonize/skeletonize_3d return a subset of their input (not analysed)"],
    "assumptions": ["un-selected inputs are 0/1 or boolean masks (docstrings: 'binary masks')"],
    "not_decided": ["the skeletons themselves", "floating-point rounding"],
}

A, B, I = N("10"), N("01"), N("11")
REF = {
    "dice": Rat(2 * I, (A + I) + (B + I)),
    "iou": Rat(I, A + B + I),
    "rvd": Rat((B + I) - (A + I), A + I),
}
INNER = {
    "dice": "metrics.dice:_compute_dice_coefficient",
    "iou": "metrics.iou:_compute_iou",
    "rvd": "metrics.relative_volume_difference:_compute_relative_volume_difference",
    "cldice": "metrics.cldice:_compute_centerline_dice_coefficient",
}
MEMBER_FORMULA = {"DSC": "dice", "IOU": "iou", "RVD": "rvd", "clDSC": "cldice"}


def _bind_masks(f: Func, X, Y):
    args = {}
    for p in f.call_params:
        n = p.name.lower()
        if "idx" in n:
            continue
        if n.startswith("ref"):
            args[p.name] = X
        elif n.startswith("pred"):
            args[p.name] = Y
    if len(args) != 2:
        raise AnchorMissing(f"{f.qual}: parameters not recognised as (reference, prediction)")
    return args


def masks_xy(raw=True):
    U = universe_xy()
    return Regions(["10", "11"], U, raw=raw, name="X"), Regions(["01", "11"], U, raw=raw, name="Y")


def check_rational(ctx: Ctx, rule: str, f: Func, runs, want: Rat, what: str, construct_prefix=None):
    main_value = None
    n = 0
    for out, it in runs:
        zero, feasible = path_zero_set(out)
        dtxt = "; ".join(f"{norm(nd) if isinstance(nd, ast.AST) else '?'}={d}" for nd, v, d in out.decisions)
        construct = (construct_prefix or f.qual) + (f"[{dtxt}]" if dtxt else "")
        if feasible is False:
            continue
        if feasible is None:
            ctx.undecided(rule, f, out.node, construct, "kernel splits on an unmodelled condition")
            continue
        for node, msg in it.root.width_events:
            ctx.violated("R06.8", f, node, (construct_prefix or f.qual) + ":width", msg, {"expr": norm(node)})
        sub = path_substitution(out)
        w = want.subst_zero(zero).subst(sub) if sub else want.subst_zero(zero)
        n += 1
        if out.kind == "raise":
            ctx.decide(rule, f, out.node, construct, "raises only where the quotient is undefined", True if w.den.is_zero() else (False if out.exc != "AssertionError" else None), {"exc": out.exc, "zeroed": sorted(zero)}, nontrivial=False)
            continue
        got = out.value
        if isinstance(got, (int, float, Fraction)) and not isinstance(got, bool):
            got = Count(_rat(got), False)
        if not isinstance(got, (Count, Rat)):
            ctx.undecided(rule, f, out.node, construct, f"kernel returns unmodelled value {got!r}")
            continue
        g = _rat(got).subst_zero(zero)
        if sub:
            g = g.subst(sub)
        if w.den.is_zero():
            ctx.ok(rule, f, out.node, construct, f"{what}: quotient undefined here (|.|=0 for {sorted(zero)}), any value admissible", {"returned": repr(g)}, nontrivial=False)
            continue
        if g.den.is_zero():
            ctx.violated(rule, f, out.node, construct, f"{what}: kernel divides by zero where the definition is defined", {"zeroed": sorted(zero), "want": repr(w)})
            continue
        ok = g.equals(w)
        if not zero:
            main_value = _rat(got)
        ctx.decide(rule, f, out.node, construct, f"{what} == {want!r}" + (f" with {sorted(zero)} = 0" if zero else ""), ok, {"got": repr(g), "want": repr(w)})
    if n == 0:
        ctx.undecided(rule, f, f.node, construct_prefix or f.qual, "no feasible path evaluated")
    return main_value


def check_kernels(ctx: Ctx):
    prog = ctx.prog
    values = {}
    for key in ("dice", "iou", "rvd"):
        f = prog.func(INNER[key])
        X, Y = masks_xy(raw=True)
        runs = run_kernel(prog, f, _bind_masks(f, X, Y))
        values[key] = check_rational(ctx, {"dice": "R06.1", "iou": "R06.2", "rvd": "R06.3"}[key], f, runs, REF[key], key)
    return values


def check_cldice(ctx: Ctx):
    prog = ctx.prog
    f = prog.func(INNER["cldice"])
    U = universe_xy_skel()
    X = Regions([r for r in U if r[0] == "1"], U, raw=False, name="X")
    Y = Regions([r for r in U if r[2] == "1"], U, raw=False, name="Y")
    Sx = Regions([r for r in U if r[1] == "1"], U)
    Sy = Regions([r for r in U if r[3] == "1"], U)
    tprec = Rat(Regions(Y.regs & Sx.regs, U).card(), Sx.card())
    tsens = Rat(Regions(X.regs & Sy.regs, U).card(), Sy.card())
    want = Rat(Poly.const(2)) * tprec * tsens / (tprec + tsens)
    for ndim, fn in ((2, "skeletonize"), (3, "skeletonize_3d")):
        runs = run_kernel(prog, f, _bind_masks(f, X, Y), ndim=ndim)
        check_rational(ctx, "R06.4", f, runs, want, f"clDice(ndim={ndim})", construct_prefix=f"{f.qual}:ndim={ndim}")
        for out, it in runs:
            names = sorted({c[0].split(".")[-1] for c in it.root.skeleton_calls})
            # skeletonize(image) without a method dispatches on the dimensionality itself: for 3-D input it is skeletonize_3d
            accepted = [[fn]] + ([["skeletonize"]] if ndim == 3 else [])
            ctx.decide("R06.4", f, f.node, f"{f.qual}:ndim={ndim}:skeleton", f"{ndim}-D input uses {fn} on both masks", names in accepted and len(it.root.skeleton_calls) == 2, {"calls": names}, nontrivial=False)
    # other dimensionalities are rejected, not silently computed
    runs = run_kernel(prog, f, _bind_masks(f, X, Y), ndim=1)
    for out, it in runs:
        ctx.decide("R06.4", f, f.node, f"{f.qual}:ndim=1", "1-D input is rejected", out.kind == "raise", {"outcome": out.kind}, nontrivial=False)


# ----------------------------------------------------------------------------------------
# R06.5 label selection
# ----------------------------------------------------------------------------------------


class SelInterp(ArrInterp):
    def __init__(self, *a, stop=(), **kw):
        super().__init__(*a, **kw)
        self.root.inner_calls = []
        self.root.no_inline = set(stop)

    def external_call(self, name, args, kwargs, node):
        if name in self.root.no_inline:
            f = self.prog.functions[name]
            b = dict(zip([p.name for p in f.call_params if p.kind == "pos"], args))
            b.update(kwargs)
            self.root.inner_calls.append((f, b, node))
            return Tagged("inner:" + f.name, args, kwargs)
        if name.startswith("kernel:"):
            self.root.inner_calls.append((None, {"reference": args[0] if args else None, "prediction": args[1] if len(args) > 1 else None, "extra": list(args[2:]), **kwargs}, node))
            return Tagged(name, args, kwargs)
        return super().external_call(name, args, kwargs, node)

    def isinstance_hook(self, v, klass, node):
        return super().isinstance_hook(v, klass, node)


def _sel_ok(mask, side, labels) -> tuple:
    """(verdict, text) for a selected mask: must be `side array == label` / isin(labels)."""
    if not isinstance(mask, AMask):
        return None, repr(mask)
    if mask.of.side != side:
        return False, f"{mask!r}: mask taken from the {mask.of.side} array"
    det = mask.detail
    if isinstance(det, LabelKeys) and det.casts:
        return False, f"{mask!r}: label(s) narrowed to a dtype ({'/'.join(det.casts)}) before the comparison - labels outside that dtype alias other labels"
    if isinstance(det, LabelKeys):
        det = det.value
    want = labels if isinstance(labels, list) else [labels]
    if mask.kind == "eq":
        ok = (not isinstance(det, (list, tuple)) and [det] == want) or (isinstance(det, (list, tuple)) and len(want) == 1 and list(det) == want)
        if isinstance(det, (list, tuple)) and len(want) > 1:
            return False, f"{mask!r}: '==' with a list of labels is not the union of the labels"
        return ok, repr(mask)
    if mask.kind == "isin":
        d = list(det) if isinstance(det, (list, tuple)) else [det]
        try:
            return sorted(set(d)) == sorted(set(want)), repr(mask)  # a union: order and repetitions of the labels do not matter
        except TypeError:
            return d == want, repr(mask)
    return False, repr(mask)


def check_selection(ctx: Ctx):
    prog = ctx.prog
    mcall = prog.func("metrics.metrics:_Metric.__call__")
    mv_cls = mcall.cls
    cases = [("int", 5, 7, [7]), ("list", 5, [7, 9], [7, 9]), ("single-list", 5, [7], [7]), ("list-descending", 5, [9, 7, 8], [9, 7, 8])]
    for cname, ridx, pidx, want_pred in cases:
        holder = []

        def make(prefix, ridx=ridx, pidx=pidx):
            mv = make_metric_objs(prog, False)[0]
            ref, pred = AArr("REF", False), AArr("PRED", False)
            args = {}
            for p in mcall.call_params:
                n = p.name.lower()
                if n.startswith("ref") and "idx" not in n:
                    args[p.name] = ref
                elif n.startswith("pred") and "idx" not in n:
                    args[p.name] = pred
                elif n.startswith("ref"):
                    args[p.name] = ridx
                elif n.startswith("pred"):
                    args[p.name] = list(pidx) if isinstance(pidx, list) else pidx
            it = SelInterp(prog, mcall, args, self_obj=mv, prefix=prefix)
            holder.append(it)
            return it

        outs = enumerate_paths(make)
        for out, it in zip(outs, holder):
            construct = f"{mcall.qual}:pred_idx={cname}"
            # splits on facts about the inputs' dtypes / ranges are input classes, not unmodelled conditions
            opaque = [d for d in out.decisions if not (isinstance(d[1], Unknown) and str(d[1].tag).startswith(("dtype-fact", "range-fact")))]
            if out.decisions and not opaque:
                construct += "[" + "; ".join(f"{d[1].tag}={d[2]}" for d in out.decisions)[:200] + "]"
            if opaque or out.kind != "return" or len(it.root.inner_calls) != 1:
                ctx.undecided("R06.5", mcall, out.node, construct, f"label selection not evaluable: {out.kind} {out.exc or ''} calls={len(it.root.inner_calls)} decisions={[norm(d[0]) for d in out.decisions if isinstance(d[0], ast.AST)][:3]}")
                continue
            _, b, node = it.root.inner_calls[0]
            v1, t1 = _sel_ok(b.get("reference"), "REF", ridx)
            v2, t2 = _sel_ok(b.get("prediction"), "PRED", want_pred)
            ctx.decide("R06.5", mcall, node, construct + ":reference", "reference mask = reference array == reference label", v1, {"got": t1})
            ctx.decide("R06.5", mcall, node, construct + ":prediction", "prediction mask = union of the given prediction label(s) in the prediction array", v2, {"got": t2})
            bad = [(n, b_) for (n, b_, idx, v, fresh) in it.root.stores if not fresh]
            ctx.decide("R06.5", mcall, node, construct + ":pure", "selection does not write to the caller's arrays", not bad, None, nontrivial=False)
    # no selection when an index is missing: arrays passed through uncrossed
    for cname, ridx, pidx in (("none", None, None),):
        mv = make_metric_objs(prog, False)[0]
        ref, pred = AArr("REF", False), AArr("PRED", False)
        args = {}
        for p in mcall.call_params:
            n = p.name.lower()
            if n.startswith("ref") and "idx" not in n:
                args[p.name] = ref
            elif n.startswith("pred") and "idx" not in n:
                args[p.name] = pred
            elif "idx" in n:
                args[p.name] = None
        it = SelInterp(prog, mcall, args, self_obj=mv)
        out = it.run()
        ok = out.kind == "return" and not out.decisions and len(it.root.inner_calls) == 1 and it.root.inner_calls[0][1].get("reference") is ref and it.root.inner_calls[0][1].get("prediction") is pred
        ctx.decide("R06.5", mcall, mcall.node, f"{mcall.qual}:no-selection", "without indices the arrays reach the kernel unchanged and uncrossed", ok, None)
    # instance wrappers
    reg = metric_registry(prog)
    inner_quals = {prog.func(q).qual for q in INNER.values()}
    assd_inner = prog.try_func("metrics.assd:_average_symmetric_surface_distance")
    if assd_inner:
        inner_quals.add(assd_inner.qual)
    # the core function of a wrapper: whatever function of the metrics package it hands a (reference, prediction)
    # pair to - also for a metric this table does not know
    for rec in reg.values():
        w = rec["kernel"]
        if w is None:
            continue
        # ... and whose result is what the wrapper returns (a helper that only prepares the two masks is not the core)
        returned = set()
        ret_names = set()
        for st in walk_no_nested(w.node):
            if isinstance(st, ast.Return) and st.value is not None:
                for x in ast.walk(st.value):
                    returned.add(id(x))
                    if isinstance(x, ast.Name):
                        ret_names.add(x.id)
        for st in walk_no_nested(w.node):
            if isinstance(st, ast.Assign) and len(st.targets) == 1 and isinstance(st.targets[0], ast.Name) and st.targets[0].id in ret_names:
                for x in ast.walk(st.value):
                    returned.add(id(x))
        for c in prog.calls_in(w):
            if id(c) not in returned:
                continue
            for h in prog.resolve_call(w, c):
                if isinstance(h, Func) and h is not w and h.module.rel.startswith("metrics"):
                    pn = [p.name.lower() for p in h.call_params]
                    if any(x.startswith("ref") for x in pn) and any(x.startswith("pred") for x in pn):
                        inner_quals.add(h.qual)
    n_wr = 0
    for member, rec in sorted(reg.items()):
        w = rec["kernel"]
        if w is None:
            ctx.undecided("R06.5", None, rec["node"], f"Metric.{member}", "registered kernel not resolved")
            continue
        n_wr += 1
        for cname, ridx, pidx in (("selected", 5, 7), ("plain", None, None)):
            ref, pred = AArr("REF", False), AArr("PRED", False)
            args = {}
            for p in w.call_params:
                n = p.name.lower()
                if n.startswith("ref") and "idx" not in n:
                    args[p.name] = ref
                elif n.startswith("pred") and "idx" not in n:
                    args[p.name] = pred
                elif n.startswith("ref"):
                    args[p.name] = ridx
                elif n.startswith("pred") and "idx" in n:
                    args[p.name] = pidx
            it = SelInterp(prog, w, args, stop=inner_quals)
            out = it.run()
            construct = f"{w.qual}:{cname}"
            if out.decisions or out.kind != "return" or len(it.root.inner_calls) != 1:
                ctx.undecided("R06.5", w, out.node, construct, f"wrapper not evaluable: {out.kind} {out.exc or ''}, inner calls {len(it.root.inner_calls)}")
                continue
            fin, b, node = it.root.inner_calls[0]
            rv = next((v for k, v in b.items() if k.lower().startswith("ref")), None)
            pv = next((v for k, v in b.items() if k.lower().startswith("pred")), None)
            if cname == "selected":
                v1, t1 = _sel_ok(rv, "REF", 5)
                v2, t2 = _sel_ok(pv, "PRED", [7])
                ctx.decide("R06.5", w, node, construct + ":reference", "wrapper selects the reference label in the reference array", v1, {"got": t1})
                ctx.decide("R06.5", w, node, construct + ":prediction", "wrapper selects the prediction label in the prediction array", v2, {"got": t2})
            else:
                ctx.decide("R06.5", w, node, construct, "wrapper passes the masks uncrossed to its kernel", rv is ref and pv is pred, {"reference": repr(rv), "prediction": repr(pv)})
    if n_wr < 5:
        ctx.undecided("R06.5.floor", None, None, "floor:R06.5", f"{n_wr} registered kernels, confirmed floor is 5")


# ----------------------------------------------------------------------------------------
# R06.6 registry end-to-end, R06.7 identities
# ----------------------------------------------------------------------------------------


def check_registry(ctx: Ctx):
    prog = ctx.prog
    reg = metric_registry(prog)
    mcall = prog.func("metrics.metrics:_Metric.__call__")
    want_dir = {"DSC": False, "IOU": False, "clDSC": False, "ASSD": True}
    for member, rec in sorted(reg.items()):
        if member in want_dir:
            ctx.decide("R06.6", None, rec["node"], f"Metric.{member}:direction", f"{member} is a '{'lower' if want_dir[member] else 'higher'} is better' metric", rec["decreasing"] == want_dir[member], {"decreasing": rec["decreasing"]}, nontrivial=False)
        ctx.decide("R06.6", None, rec["node"], f"Metric.{member}:name", "member identifier equals the metric's name constant", rec["name"] == member, {"name": rec["name"]}, nontrivial=False)
        key = MEMBER_FORMULA.get(member)
        if key is None or rec["kernel"] is None:
            continue
        # end-to-end: _Metric.__call__ -> wrapper -> kernel on Venn masks
        if key == "cldice":
            U = universe_xy_skel()
            X = Regions([r for r in U if r[0] == "1"], U, raw=False, name="X")
            Y = Regions([r for r in U if r[2] == "1"], U, raw=False, name="Y")
            Sx = Regions([r for r in U if r[1] == "1"], U)
            Sy = Regions([r for r in U if r[3] == "1"], U)
            tprec = Rat(Regions(Y.regs & Sx.regs, U).card(), Sx.card())
            tsens = Rat(Regions(X.regs & Sy.regs, U).card(), Sy.card())
            want = Rat(Poly.const(2)) * tprec * tsens / (tprec + tsens)
            ndim = 3
        else:
            X, Y = masks_xy(raw=True)
            want = REF[key]
            ndim = None
        mv = make_metric_objs(prog, bool(rec["decreasing"]), rec["name"], kernel=rec["kernel"], long_name=rec["long_name"])[0]
        its = []

        def make(prefix, X=X, Y=Y, mv=mv, ndim=ndim):
            it = VennInterp(prog, mcall, _bind_masks(mcall, X, Y), self_obj=mv, prefix=prefix)
            if ndim:
                it.root.ndim = ndim
            its.append(it)
            return it

        outs = enumerate_paths(make)
        check_rational(ctx, "R06.6", mcall, list(zip(outs, its)), want, f"Metric.{member}(reference, prediction)", construct_prefix=f"Metric.{member}->kernel")
    if len(reg) < 5:
        ctx.undecided("R06.6.floor", None, None, "floor:R06.6", f"{len(reg)} metric members found, confirmed floor is 5")


def check_identities(ctx: Ctx, values):
    D, J, R = values.get("dice"), values.get("iou"), values.get("rvd")
    if D is None or J is None:
        ctx.undecided("R06.7", None, None, "identities", "main-path values of Dice/IoU not available")
        return
    one = Rat(Poly.const(1))
    swap = {"n_10": N("01"), "n_01": N("10")}
    ctx.decide("R06.7", None, None, "identity:D(1+J)=2J", "Dice = 2 IoU / (1 + IoU)", (D * (one + J)).equals(Rat(Poly.const(2)) * J), {"D": repr(D), "J": repr(J)})
    ctx.decide("R06.7", None, None, "identity:D-symmetric", "Dice is symmetric under exchanging the masks", D.subst(swap).equals(D), None)
    ctx.decide("R06.7", None, None, "identity:J-symmetric", "IoU is symmetric under exchanging the masks", J.subst(swap).equals(J), None)
    for nm, V in (("D", D), ("J", J)):
        gap = V.den - V.num  # den - num >= 0  <=>  value <= 1 (den > 0)
        ctx.decide("R06.7", None, None, f"identity:{nm}-range", f"0 <= {nm} <= 1", V.num.nonneg_coeffs() and V.den.nonneg_coeffs() and gap.nonneg_coeffs(), {"den-num": repr(gap)})
        ctx.decide("R06.7", None, None, f"identity:{nm}=1", f"{nm} = 1 exactly for identical non-empty masks (a=b=0)", gap.nonneg_coeffs() and gap.variables() == {"n_10", "n_01"} and not gap.subst_zero({"n_10", "n_01"}).terms, {"den-num": repr(gap)})
    diff = D - J
    ctx.decide("R06.7", None, None, "identity:D>=J", "Dice >= IoU", diff.num.nonneg_coeffs() and diff.den.nonneg_coeffs(), {"D-J": repr(diff)})
    if R is not None:
        mirrored = R.subst(swap)
        ctx.decide("R06.7", None, None, "identity:RVD-mirror", "RVD(Y,X) = -r/(1+r) for r = RVD(X,Y)", mirrored.equals((Rat(Poly()) - R) / (one + R)), {"r": repr(R), "mirrored": repr(mirrored)})


def _run_rule(ctx, name, fn):
    """a sub-rule that cannot be evaluated is recorded as undecided; the remaining rules still run"""
    try:
        return fn(ctx)
    except (Undecided, AnchorMissing) as e:
        ctx.undecided(name, None, None, f"{name}:analysis", f"{type(e).__name__}: {e}")
        return 0


def check(ctx: Ctx):
    values = check_kernels(ctx)
    _run_rule(ctx, "check_cldice", check_cldice)
    _run_rule(ctx, "check_selection", check_selection)
    _run_rule(ctx, "check_registry", check_registry)
    check_identities(ctx, values)
    # "computed on exactly the voxels selected": the crop the pipeline applies first covers both
    # masks (R10.3), nobody binarises the caller's arrays in place (R15.1), and the metric wrapper
    # keeps no state between calls (R15.7)
    from . import c03, c10, c15

    c03._guarded(ctx, "R10.3", c10.check_crop_mask)
    c03._guarded(ctx, "R15.1", c15.check_no_input_mutation)
    c03._guarded(ctx, "R15.1", c15.check_result_purity)
    c03._guarded(ctx, "R15.7", c15.check_globals)
    # results of later evaluations (another group, a flipped copy, the exchanged pair, a second
    # threshold) are only meaningful if no step writes into the caller's arrays (R15.8)
    from . import c15 as _c15
    from . import c03 as _c03

    _c03._guarded(ctx, "R15.8", _c15.check_param_aliasing)
    _c03._guarded(ctx, "R15.8", _c15.check_kernel_purity)


_D = "panoptica/metrics/dice.py"
_J = "panoptica/metrics/iou.py"
_V = "panoptica/metrics/relative_volume_difference.py"
_C = "panoptica/metrics/cldice.py"
_X = "panoptica/metrics/metrics.py"

VARIANTS = [
    Variant("C06-m-dice-no2", "R06.1", "mutant", [(_D, "dice = 2 * np.sum(intersection) / (reference_mask + prediction_mask)", "dice = np.sum(intersection) / (reference_mask + prediction_mask)")], control=True),
    Variant("C06-m-dice-or", "R06.1", "mutant", [(_D, "    intersection = np.logical_and(reference, prediction)\n    reference_mask", "    intersection = np.logical_or(reference, prediction)\n    reference_mask")]),
    Variant("C06-m-dice-guard-or", "R06.1", "mutant", [(_D, "    if reference_mask == 0 and prediction_mask == 0:\n        return 0.0\n\n    # Calculate Dice coefficient\n    dice", "    if reference_mask == 0 or prediction_mask == 0:\n        return 1.0\n\n    # Calculate Dice coefficient\n    dice")]),
    Variant("C06-m-iou-xor", "R06.2", "mutant", [(_J, "    union = np.logical_or(reference_arr, prediction_arr)", "    union = np.logical_xor(reference_arr, prediction_arr)")], control=True),
    Variant("C06-m-rvd-swapped", "R06.3", "mutant", [(_V, "    rvd = (prediction_mask - reference_mask) / reference_mask", "    rvd = (reference_mask - prediction_mask) / reference_mask")]),
    Variant("C06-m-rvd-den", "R06.3", "mutant", [(_V, "    rvd = (prediction_mask - reference_mask) / reference_mask", "    rvd = (prediction_mask - reference_mask) / prediction_mask")]),
    Variant("C06-m-rvd-nofloat", "R06.8", "mutant", [(_V, "    reference_mask = float(np.sum(reference))\n    prediction_mask = float(np.sum(prediction))", "    reference_mask = np.sum(reference)\n    prediction_mask = np.sum(prediction)")]),
    Variant("C06-m-cl-swapped", "R06.4", "mutant", [(_C, "        tprec = cl_score(prediction, skeletonize_3d(reference))\n        tsens = cl_score(reference, skeletonize_3d(prediction))", "        tprec = cl_score(reference, skeletonize_3d(reference))\n        tsens = cl_score(reference, skeletonize_3d(prediction))")]),
    Variant("C06-m-cl-arith-mean", "R06.4", "mutant", [(_C, "    return 2 * tprec * tsens / (tprec + tsens)", "    return (tprec + tsens) / 2")]),
    Variant("C06-m-cl-2d-uses-3d", "R06.4", "mutant", [(_C, "        tprec = cl_score(prediction, skeletonize(reference))", "        tprec = cl_score(prediction, skeletonize_3d(reference))")]),
    Variant("C06-m-sel-pred-eq", "R06.5", "mutant", [(_X, "            if isinstance(pred_instance_idx, int):\n                pred_instance_idx = [pred_instance_idx]\n            prediction_arr = np.isin(\n                prediction_arr.copy(), pred_instance_idx\n            )  # type:ignore", "            prediction_arr = prediction_arr.copy() == pred_instance_idx")], control=True),
    Variant("C06-m-sel-crossed", "R06.5", "mutant", [(_X, "            reference_arr = reference_arr.copy() == ref_instance_idx", "            reference_arr = prediction_arr.copy() == ref_instance_idx")]),
    Variant("C06-m-sel-cast", "R06.5", "mutant", [(_X, "            reference_arr = reference_arr.copy() == ref_instance_idx", "            reference_arr = reference_arr == np.asarray(ref_instance_idx).astype(reference_arr.dtype)")]),
    Variant("C06-m-wrapper-crossed", "R06.5", "mutant", [(_J, "    ref_instance_mask = reference_arr == ref_instance_idx\n    pred_instance_mask = prediction_arr == pred_instance_idx", "    ref_instance_mask = reference_arr == pred_instance_idx\n    pred_instance_mask = prediction_arr == ref_instance_idx")]),
    Variant("C06-m-registry-kernel", "R06.6", "mutant", [(_X, "    IOU = _Metric(\"IOU\", \"Intersection over Union\", False, _compute_instance_iou)", "    IOU = _Metric(\"IOU\", \"Intersection over Union\", False, _compute_instance_volumetric_dice)")]),
    Variant("C06-m-registry-dir", "R06.6", "mutant", [(_X, "    DSC = _Metric(\"DSC\", \"Dice\", False, _compute_instance_volumetric_dice)", "    DSC = _Metric(\"DSC\", \"Dice\", True, _compute_instance_volumetric_dice)")]),
    Variant("C06-t-dice-count", "R06.1", "twin", [(_D, "    intersection = np.logical_and(reference, prediction)\n    reference_mask = np.sum(reference)\n    prediction_mask = np.sum(prediction)", "    intersection = reference & prediction\n    reference_mask = reference.sum()\n    prediction_mask = np.count_nonzero(prediction)")]),
    Variant("C06-t-dice-float", "R06.1", "twin", [(_D, "dice = 2 * np.sum(intersection) / (reference_mask + prediction_mask)", "dice = 2.0 * float(intersection.sum()) / float(prediction_mask + reference_mask)")]),
    Variant("C06-t-iou-formula", "R06.2", "twin", [(_J, "    iou = np.sum(intersection) / union_sum", "    inter = np.sum(intersection)\n    iou = inter / (np.sum(reference_arr) + np.sum(prediction_arr) - inter)")]),
    Variant("C06-t-rvd-renamed", "R06.3", "twin", [(_V, "    rvd = (prediction_mask - reference_mask) / reference_mask", "    vol_diff = prediction_mask - reference_mask\n    rvd = vol_diff / reference_mask")]),
    Variant("C06-t-sel-nocopy", "R06.5", "twin", [(_X, "            reference_arr = reference_arr.copy() == ref_instance_idx", "            reference_arr = reference_arr == ref_instance_idx")]),
]
