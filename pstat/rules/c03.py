"""C03 - instance matching is a sound, conflict-free, maximal best-first assignment."""

from __future__ import annotations

import ast
from fractions import Fraction
from typing import Optional

from ..absval import Closure, Interp, ItemGetter, LocalDef, Obj, Outcome, RaiseSignal, Sym, Unknown, enumerate_paths
from ..flow import Formula, implication, is_stale, leaves, path_condition, truth_table
from ..model import AnchorMissing, Func, Undecided, bind_args, dotted, norm, walk_no_nested
from ..pointwise import PV, LabelSeq, Pointwise, required_bits
from ..poly import Poly
from ..report import Ctx
from ..symint import evaluate, find_witness
from ..variants import Variant
from .common import MatcherAtoms, calls_resolving_to, labelmap_api, make_metric_objs, matcher_loop, metric_registry

INFO = {
    "explanation": "Rounds 4/5: (R03.8) the matcher constructors store the given threshold for 0, 0.0, 1/4, 1.0 and both metric directions; candidate records are read by the layout the generator's own abstract run produces; a threshold test moved into the candidate generator is accepted only if the generator filters by score_beats_threshold(score, threshold) on every path for a numeric threshold of unknown truth value (candidate_prefilter); R04.2/R04.4 delegated (the assignment is delivered as relabelled maps). (R03.7) every matcher is run abstractly on a symbolic pair up to its call of the candidate function (wrappers inlined): prediction array, reference array, reference labels and the configured metric arrive each in their own parameter; C03 decided clause-wise from the source: (R03.1) the pair codec of _calc_overlapping_labels is interpreted pointwise over exact polynomials for the four sign classes of (prediction label, reference label) - filter accepts exactly overlapping pairs, decode returns (ref,pred); (R03.2) the candidate list is abstractly evaluated with symbolic candidates: element structure (score,(ref,pred)), starmap binding, sorted on the score with reverse == not decreasing on every path; (R03.3) score_beats_threshold bodies (both siblings) evaluated on the full table decreasing x ordering(score,threshold) incl. falsy thresholds; (R03.4) at every add_labelmap_entry call in a matcher the path condition implies 'meets threshold', 'prediction unassigned' and, without many-to-one, 'reference unassigned' on all rows of the truth table; (R03.5) no break/return/raise skips candidates, callee raise condition excluded. Candidate discovery is complete only if pair codes cannot wrap: container obligations of the encoding for every input dtype, also when the container is computed from the data (R09.1, delegated). Delegated also: the relabelling that delivers the assignment (R04.2 fresh labels above every reference label, R04.4 label table and outputs fit their dtype). Further delegated: R15.8 (the matching path writes into no received array), R15.7 (no memo between calls). Round 6: (R03.4g) the threshold matcher is run abstractly on every ordering of four candidates over two reference x two prediction labels, every outcome of the threshold tests and both many-to-one settings (exceptions raised and caught included) and the returned label map is compared with the greedy one; assignments whose rejection by the label map is caught and skipped are decided by this run, not by their path condition. Metric direction is read from the registry layout and score_beats_threshold, label map members are identified by what their bodies do (not by name). Round 7: the greedy run judges only monotone threshold outcomes (candidates arrive best first); early exits of the candidate loop (R03.5) and extra guards in maximality rows (R03.4d/e) are accepted exactly where the run finds the assignment greedy; the pointwise codec domain knows the bounding box of a mask, mask.any() and the single reference label. Round 8: (R03.1) the decoding identity is decided for every package function of the encoder signature (prediction array, reference array, reference labels) - what a contingency helper reports as labels must be the generic voxel's own two labels for label sets with gaps; (R03.9) helpers the metric enum mirrors from the metric value class (the matchers call the enum's copy) return the same value as the original on a grid of rational arguments for both directions; (R03.4g) the greedy run has a second scenario family with more predictions than references and decides alone when the candidate loop sits in a helper; (R03.8) constructors are tried with the metrics the matcher accepts. Round 9: (R03.8 spellings) a matcher constructor that still takes an option through a positional catch-all stores the same settings for the positional and the keyword spelling; path-condition rows whose guard goes through a condition the rule cannot read (a new helper of the label map) are decided by the matcher's run (R03.4g); np.logical_and / or / not, ufuncs with dtype= and selections by a both-foreground mask are interpreted pointwise.",
    "trusted_base": ["Python semantics of the modelled AST subset (DESIGN appendix A.1)", "numpy primitives: astype, elementwise + * // %, masked store, np.unique (appendix A.2/A.4)", "multiprocessing.Pool.starmap preserves order and binds tuple elements positionally"],
    "assumptions": ["labels are non-negative integers, 0 = background; ref_labels is the non-empty tuple of reference labels (matchers run after the zero-instance check)", "all four combinations of (prediction already assigned, reference already assigned) are reachable in the greedy loop"],
    "not_decided": ["that the matching metric returns the documented score (C06/C07)", "tie-breaking among equal scores (property excludes ties)"],
}

BEATS_REF = {(False, "="), (False, ">"), (True, "<"), (True, "=")}


# ----------------------------------------------------------------------------------------
# R03.1  pair codec
# ----------------------------------------------------------------------------------------

SIGN_CLASSES = [("0", "0"), ("0", "+"), ("+", "0"), ("+", "+")]


def _class_values(pc: str, rc: str):
    """Polynomials for P, R and m = max(ref_labels) in one sign class.
    R >= 1  ->  m = R + s ;  R == 0 -> m = 1 + t  (ref_labels non-empty)."""
    P = Poly() if pc == "0" else Poly.const(1) + Poly.var("p")
    if rc == "0":
        R = Poly()
        m = Poly.const(1) + Poly.var("t")
    else:
        R = Poly.const(1) + Poly.var("r")
        m = R + Poly.var("s")
    return P, R, m


def check_codec(ctx: Ctx):
    from .c09 import pair_encoders

    anchor = None
    for f in pair_encoders(ctx.prog):
        if anchor is None:
            anchor = _check_codec(ctx, f, True)
        else:
            try:
                _check_codec(ctx, f, False)
            except (Undecided, AnchorMissing) as e:
                ctx.undecided("R03.1", f, f.node, f"{f.qual}:analysis", f"{type(e).__name__}: {e}")
    return anchor


def _check_codec(ctx: Ctx, f, is_anchor: bool):
    """the anchor returns exactly the (ref, pred) pairs that overlap; a further helper of the same signature
    (contingency counts, ...) may report other combinations and further columns, but what it reports as labels
    must be the generic voxel's own two labels"""
    prog = ctx.prog
    params = [p.name for p in f.params]
    role = {}
    for p in params:
        lp = p.lower()
        if lp.startswith(("pred", "prediction")):
            role[p] = "pred_arr"
        elif lp.startswith("ref") and "label" in lp:
            role[p] = "ref_labels"
        elif lp.startswith(("ref", "reference")):
            role[p] = "ref_arr"
    if sorted(role.values()) != ["pred_arr", "ref_arr", "ref_labels"]:
        raise AnchorMissing(f"{f.qual}: parameters {params} not recognised as (prediction array, reference array, reference labels)")
    label_vars = {"p", "r", "s", "t"}
    n_ok = 0
    all_events = []
    for pc, rc in SIGN_CLASSES:
        P, R, m = _class_values(pc, rc)
        args = {}
        for p, ro in role.items():
            if ro == "pred_arr":
                args[p] = PV(P, "IN", "arr", "pred")
            elif ro == "ref_arr":
                args[p] = PV(R, "IN", "arr", "ref")
            else:
                args[p] = LabelSeq(PV(m, "IN", "nps", "ref"))
        its = []

        def make(prefix, args=args):
            it = Pointwise(prog, f, dict(args), label_vars, prefix=prefix)
            its.append(it)
            return it

        outs = enumerate_paths(make)
        notes_by_out = {id(o): list(i.root.witness_notes) for o, i in zip(outs, its)}
        want = [] if (pc, rc) != ("+", "+") else [(R, P)]
        cname = f"class(pred{'>=1' if pc == '+' else '=0'},ref{'>=1' if rc == '+' else '=0'})"
        for out in outs:
            construct = f"{f.qual}:{cname}"
            if out.kind != "return":
                ctx.undecided("R03.1", f, out.node, construct, f"codec path ends with {out.kind} {out.exc or ''}")
                continue
            got = out.value
            dec_txt = [(norm(n) if isinstance(n, ast.AST) else "?", d) for n, v, d in out.decisions]
            ok = None
            if not is_anchor:
                recs = got if isinstance(got, list) else None
                if recs is None or not all(isinstance(t, tuple) and len(t) >= 2 for t in recs):
                    ctx.undecided("R03.1", f, f.node, construct, f"unmodelled result of the pair helper {got!r}"[:200])
                    continue
                bad = None
                for t in recs:
                    labs = [x.poly for x in t if isinstance(x, PV)]
                    if len(labs) < 2:
                        bad = ("?", t)
                    elif labs[:2] not in ([R, P], [P, R]):
                        bad = ("!", t)
                if bad is None:
                    n_ok += 1
                    ctx.ok("R03.1", f, f.node, construct, f"every reported combination names the voxel's own labels ({_fmt([(R, P)])})")
                elif bad[0] == "?":
                    ctx.undecided("R03.1", f, f.node, construct, f"record without two label columns: {bad[1]!r}"[:200])
                else:
                    w = _path_witness(out) if out.decisions else {}
                    if w is None:
                        continue
                    ctx.violated("R03.1", f, f.node, construct, f"pair helper reports labels {tuple(x.poly for x in bad[1] if isinstance(x, PV))!r} for a voxel with (ref, pred) = ({R!r}, {P!r})", {"valuation": w, "decisions": dec_txt, "notes": notes_by_out.get(id(out))})
                continue
            if isinstance(got, list) and all(isinstance(t, tuple) and len(t) == 2 and all(isinstance(x, PV) for x in t) for t in got):
                gotp = [(t[0].poly, t[1].poly) for t in got]
                ok = gotp == want
                # a split decision is only feasible if some valuation realises it
                if not ok and out.decisions:
                    w = _path_witness(out)
                    if w is None:
                        continue  # infeasible split: no valuation takes this path
                    ctx.violated("R03.1", f, f.node, construct, f"pair codec returns {_fmt(gotp)} but must return {_fmt(want)} [(ref,pred) exactly for overlapping pairs]", {"valuation": w, "decisions": dec_txt})
                    continue
            if ok is True:
                n_ok += 1
                ctx.ok("R03.1", f, f.node, construct, f"filter/decoding correct: returns {_fmt(want)}")
            elif ok is False:
                ctx.violated("R03.1", f, f.node, construct, f"pair codec returns {_fmt(gotp)} but must return {_fmt(want)}", {"decisions": dec_txt, "notes": notes_by_out.get(id(out))})
            else:
                ctx.undecided("R03.1", f, f.node, construct, f"unmodelled codec result {got!r}")
        # events from the last path of this class are representative for WIDTH (same statements)
        if outs:
            pass
    # WIDTH (shared with C09 R09.1): re-run the (+,+) class and inspect arithmetic containers
    return f


def _fmt(pairs):
    return "[" + ", ".join(f"({a!r}, {b!r})" for a, b in pairs) + "]"


def _path_witness(out: Outcome) -> Optional[dict]:
    """A valuation of the unknowns under which every split decision of the path has the
    recorded truth value."""
    conds = []
    vars_ = set()
    for node, v, d in out.decisions:
        pv = getattr(v, "pv", None)
        if pv is None:
            return {}  # decision on an unmodelled value: cannot exclude feasibility
        sym, a, b = pv
        conds.append((sym, a - b, d))
        vars_ |= (a - b).variables()

    def holds(val):
        for sym, dpoly, want in conds:
            x = evaluate(dpoly, val)
            t = {">": x > 0, ">=": x >= 0, "<": x < 0, "<=": x <= 0, "==": x == 0, "!=": x != 0}[sym]
            if t != want:
                return False
        return True

    return find_witness(holds, sorted(vars_))


# ----------------------------------------------------------------------------------------
# R03.2  candidate list: structure, binding, best-first order
# ----------------------------------------------------------------------------------------


class _Sorted:
    def __init__(self, items, key_ok, reverse):
        self.items = items
        self.key_ok = key_ok
        self.reverse = reverse


class _Thr(Unknown):
    """The caller-supplied threshold (a number: not None, truth value unknown - it may be 0)."""

    __slots__ = ()


def _is_beats_filter(prog, f: Func, cond: ast.expr, elem: str, metric_param: str, thr_param: str) -> bool:
    """cond  ==  <metric>.score_beats_threshold(<elem>[0], <threshold parameter>)"""
    if not (isinstance(cond, ast.Call) and isinstance(cond.func, ast.Attribute) and isinstance(cond.func.value, ast.Name) and cond.func.value.id == metric_param):
        return False
    targets = [c for c in prog.resolve_call(f, cond, fanout=False) if isinstance(c, Func)]
    if not targets or any(t.name != prog.anchor_name("metrics.metrics:Metric.score_beats_threshold").split(".")[-1] for t in targets):
        return False
    b, problems = bind_args(targets[0], cond)
    if problems:
        return False
    ps = [p.name for p in targets[0].call_params]
    if len(ps) < 2:
        return False
    sc, th = b.get(ps[0]), b.get(ps[1])
    score_ok = isinstance(sc, ast.Subscript) and isinstance(sc.value, ast.Name) and sc.value.id == elem and isinstance(sc.slice, ast.Constant) and sc.slice.value == 0
    return score_ok and isinstance(th, ast.Name) and th.id == thr_param


class _Score(Sym):
    pass


class CandInterp(Interp):
    """Abstract evaluation of _calc_matching_metric_of_overlapping_labels with two symbolic
    candidates (REF1,PRED1), (REF2,PRED2)."""

    def __init__(self, prog, func, args, metric_obj, overlap_func, **kw):
        super().__init__(prog, func, args, **kw)
        self.root.metric_obj = metric_obj
        self.root.overlap_func = overlap_func
        self.root.problems = []
        self.root.starmaps = 0

    def should_inline(self, f: Func) -> bool:
        return f is not self.root.overlap_func

    def external_call(self, name, args, kwargs, node):
        r = self.root
        if name == r.overlap_func.qual:
            # check the arrays/labels handed to the codec
            b = dict(zip([p.name for p in r.overlap_func.params], args))
            b.update(kwargs)
            for pn, v in b.items():
                want = "PRED_ARR" if pn.lower().startswith("pred") else "REF_LABELS" if "label" in pn.lower() else "REF_ARR"
                if isinstance(v, Sym) and v.name != want:
                    r.problems.append((node, f"{r.overlap_func.name}: parameter {pn} receives {v.name}"))
            return [(Sym("REF1"), Sym("PRED1")), (Sym("REF2"), Sym("PRED2"))]
        if name.endswith("Pool"):
            return Sym("pool")
        if name == "pool.starmap" or name.endswith(".starmap"):
            fn, tuples = args[0], args[1]
            r.starmaps += 1
            out = []
            callee = None
            from ..absval import BoundMethod

            if isinstance(fn, BoundMethod):
                callee = fn.func
            elif isinstance(fn, Obj):
                callee = fn.cls.lookup("__call__")
            elif isinstance(fn, Func):
                callee = fn
            if callee is None or not isinstance(tuples, list):
                r.problems.append((node, f"starmap target {fn!r} not resolved"))
                return Unknown("starmap")
            names = [p.name for p in callee.call_params if p.kind == "pos"]
            for k, t in enumerate(tuples):
                if not isinstance(t, tuple):
                    r.problems.append((node, "starmap element is not a tuple"))
                    continue
                out.append(self._score_of(callee, names, t, node))
            return out
        if name == "sorted":
            return self._sorted(args, kwargs, node)
        if name.split(".")[-1] in ("isnan", "isinf", "isfinite") and len(args) == 1 and isinstance(args[0], _Score):
            # the property speaks of scores that are numbers: a candidate's score is finite
            return name.split(".")[-1] == "isfinite"
        return super().external_call(name, args, kwargs, node)

    def call_func(self, f, args, kwargs, node, self_obj=None):
        # the metric applied directly to one candidate's (arrays, labels): same as one starmap element
        if f.name == "__call__" and f.cls is not None and f.cls.name in ("_Metric", "Metric") and self_obj is not None and not kwargs and len(args) == 4:
            callee = f
            names = [p.name for p in callee.call_params if p.kind == "pos"]
            return self._score_of(callee, names, tuple(args), node)
        return super().call_func(f, args, kwargs, node, self_obj=self_obj)

    def _score_of(self, callee, names, t, node):
        r = self.root
        if True:
            if True:
                bound = dict(zip(names, t))
                refi = predi = None
                for pn, v in bound.items():
                    if not isinstance(v, Sym):
                        continue
                    lp = pn.lower()
                    side = "REF" if lp.startswith("ref") else "PRED" if lp.startswith("pred") else None
                    if side is None:
                        continue
                    kind = "ARR" if "arr" in lp or lp.endswith("labels") else "IDX"
                    if kind == "ARR" and v.name != f"{side}_ARR":
                        r.problems.append((node, f"starmap binds {v.name} to parameter {pn} of {callee.qual}"))
                    if kind == "IDX":
                        if not v.name.startswith(side):
                            r.problems.append((node, f"starmap binds {v.name} to parameter {pn} of {callee.qual}"))
                        if side == "REF":
                            refi = v.name
                        else:
                            predi = v.name
                if refi is None or predi is None or refi[3:] != predi[4:]:
                    r.problems.append((node, f"starmap tuple {t!r} does not bind one candidate's (ref, pred) labels"))
                return _Score(f"score[{refi},{predi}]")

    def _sorted(self, args, kwargs, node):
        if True:
            items = args[0]
            key = kwargs.get("key")
            rev = kwargs.get("reverse", False)
            key_ok = False
            if isinstance(key, (Closure, LocalDef, ItemGetter, Func)) and isinstance(items, list) and items:
                kv = self.apply(key, [items[0]], {}, node)
                key_ok = isinstance(kv, _Score)
            elif key is None and isinstance(items, list) and items and isinstance(items[0], tuple) and isinstance(items[0][0], _Score):
                key_ok = True  # tuples compare on their first component first
            if isinstance(rev, Unknown):
                rev = None
            return _Sorted(items, key_ok, rev)

    def attr_hook(self, base, attr, node):
        if isinstance(base, list) and attr == "sort":
            return _ListSort(base)
        return super().attr_hook(base, attr, node)

    def get_attr(self, base, attr, node):
        if isinstance(base, Sym) and base.name == "pool" and attr == "starmap":
            return Sym("pool.starmap")
        if isinstance(base, list) and attr == "sort":
            return _ListSort(base, self)
        return super().get_attr(base, attr, node)

    def apply(self, fv, args, kwargs, node):
        if isinstance(fv, _ListSort):
            s = self.external_call("sorted", [list(fv.lst)], kwargs, node)
            # in-place: rebind every env name that holds this list
            for k, v in list(self.env.items()):
                if v is fv.lst:
                    self.env[k] = s
            return None
        return super().apply(fv, args, kwargs, node)

    def iterate(self, it, node):
        if isinstance(it, _Sorted):
            return it.items
        return super().iterate(it, node)

    def ev_ListComp(self, e):
        # [x for x in <candidates> if cond(x)]: an order-preserving selection
        if len(e.generators) == 1 and isinstance(e.generators[0].target, ast.Name) and isinstance(e.elt, ast.Name) and e.elt.id == e.generators[0].target.id and e.generators[0].ifs:
            src = self.eval(e.generators[0].iter)
            if isinstance(src, (_Sorted, list)):
                g = e.generators[0]
                kept = []
                saved = self.env.get(g.target.id, None)
                for x in (src.items if isinstance(src, _Sorted) else src):
                    self.env[g.target.id] = x
                    if all(self.truth(self.eval(c), c) for c in g.ifs):
                        kept.append(x)
                if saved is not None:
                    self.env[g.target.id] = saved
                self.root.__dict__.setdefault("filters", []).append((list(g.ifs), g.target.id, e))
                if isinstance(src, _Sorted):
                    return _Sorted(kept, src.key_ok, src.reverse)
                return kept
        return super().ev_ListComp(e)

    def compare(self, op, l, r, node):
        if isinstance(op, (ast.Is, ast.IsNot)) and ((isinstance(l, _Thr) and r is None) or (isinstance(r, _Thr) and l is None)):
            return isinstance(op, ast.IsNot)
        return super().compare(op, l, r, node)


class _ListSort:
    def __init__(self, lst, interp=None):
        self.lst = lst


def _flatten_record(rec, prefix=()):
    """leaves of a candidate record (tuple / named tuple object) with their position paths"""
    if isinstance(rec, Obj) and isinstance(rec.attrs.get("_fields"), tuple):
        rec = tuple(rec.attrs[k] for k in rec.attrs["_fields"])
    if isinstance(rec, (tuple, list)):
        out = {}
        for i, x in enumerate(rec):
            out.update(_flatten_record(x, prefix + (i,)))
        return out
    return {prefix: rec}


def _record_roles(rec) -> Optional[dict]:
    """{path: role} if the record consists of exactly one candidate's score, ref and pred label"""
    flat = _flatten_record(rec)
    if len(flat) != 3:
        return None
    roles = {}
    names = {}
    for pth, v in flat.items():
        if isinstance(v, _Score):
            roles[pth] = "score"
            names["score"] = v.name
        elif isinstance(v, Sym) and v.name.startswith("REF"):
            roles[pth] = "ref"
            names["ref"] = v.name
        elif isinstance(v, Sym) and v.name.startswith("PRED"):
            roles[pth] = "pred"
            names["pred"] = v.name
    if sorted(roles.values()) != ["pred", "ref", "score"] or names["score"] != f"score[{names['ref']},{names['pred']}]":
        return None
    return roles


def generator_layout(prog) -> Optional[dict]:
    f = prog.func("_functionals:_calc_matching_metric_of_overlapping_labels")
    overlap = prog.func("_functionals:_calc_overlapping_labels")
    mv, me = make_metric_objs(prog, False)
    args = {}
    for p in f.params:
        lp = p.name.lower()
        args[p.name] = Sym("PRED_ARR") if lp.startswith("pred") else Sym("REF_LABELS") if ("label" in lp and lp.startswith("ref")) else Sym("REF_ARR") if lp.startswith("ref") else me if "metric" in lp else None
    try:
        outs = enumerate_paths(lambda prefix: CandInterp(prog, f, dict(args), me, overlap, prefix=prefix))
    except Exception:
        return None
    layouts = []
    for out in outs:
        v = out.value if out.kind == "return" else None
        items = v.items if isinstance(v, _Sorted) else v if isinstance(v, list) else None
        if not items:
            continue
        ls = [_record_roles(x) for x in items]
        if any(l is None for l in ls) or any(l != ls[0] for l in ls):
            return None
        layouts.append(ls[0])
    if layouts and all(l == layouts[0] for l in layouts):
        return layouts[0]
    return None


def check_candidates(ctx: Ctx):
    prog = ctx.prog
    f = prog.func("_functionals:_calc_matching_metric_of_overlapping_labels")
    overlap = prog.func("_functionals:_calc_overlapping_labels")
    n_paths = 0
    for dec in (False, True):
        mv, me = make_metric_objs(prog, dec)
        args = {}
        for p in f.params:
            lp = p.name.lower()
            if lp.startswith("pred"):
                args[p.name] = Sym("PRED_ARR")
            elif "label" in lp and lp.startswith("ref"):
                args[p.name] = Sym("REF_LABELS")
            elif lp.startswith("ref"):
                args[p.name] = Sym("REF_ARR")
            elif "metric" in lp:
                args[p.name] = me
            elif "thr" in lp:
                args[p.name] = Unknown("param:" + p.name)  # absent (None) or a number: both explored
            elif p.default is not None:
                args[p.name] = Unknown("param:" + p.name)
            else:
                args[p.name] = Unknown("param:" + p.name)
        holder = {}
        its_ = []
        metric_param = next((p.name for p in f.params if "metric" in p.name.lower()), None)
        thr_param = next((p.name for p in f.params if "thr" in p.name.lower()), None)

        def make(prefix, args=args, me=me):
            it = CandInterp(prog, f, dict(args), me, overlap, prefix=prefix)
            holder["it"] = it
            its_.append(it)
            return it

        outs = enumerate_paths(make)
        for out, it_run in zip(outs, its_):
            n_paths += 1
            construct = f"{f.qual}:decreasing={dec}"
            dec_txt = [(norm(n) if isinstance(n, ast.AST) else "?", d) for n, v, d in out.decisions]
            wit = {"decreasing": dec, "path": dec_txt} if dec_txt else {"decreasing": dec}
            if out.kind != "return":
                ctx.undecided("R03.2", f, out.node, construct, f"candidate list computation ends with {out.kind} {out.exc or ''}", wit)
                continue
            v = out.value
            if not isinstance(v, _Sorted):
                # unsorted on this path: a guard other than a size-triviality test skips the ordering
                trivial = all(_is_trivial_size_guard(n) for n, _, _ in out.decisions) and out.decisions
                if trivial:
                    ctx.ok("R03.2", f, out.node, construct, "unsorted only when the list has at most one element", wit)
                    continue
                if isinstance(v, list):
                    ctx.violated("R03.2", f, out.node, construct, "candidate pairs are returned without best-first ordering on this path", wit)
                else:
                    ctx.undecided("R03.2", f, out.node, construct, f"unmodelled return value {v!r}", wit)
                continue
            if not v.key_ok:
                ctx.violated("R03.2", f, out.node, construct, "candidate list is not ordered by the score component", wit)
                continue
            if v.reverse is None:
                ctx.undecided("R03.2", f, out.node, construct, "sort direction not determined by the metric direction", wit)
                continue
            want_rev = not dec
            if bool(v.reverse) != want_rev:
                ctx.violated("R03.2", f, out.node, construct, f"sort direction reverse={bool(v.reverse)} but best-first needs reverse={want_rev}", wit)
                continue
            # element structure (score[REFk,PREDk], (REFk, PREDk))
            filters = it_run.root.__dict__.get("filters", [])
            if filters and len(v.items) < 2:
                # candidates were dropped: acceptable only as the caller's own threshold test moved here
                okf = thr_param is not None and all(len(conds) == 1 and _is_beats_filter(prog, f, conds[0], elem, metric_param, thr_param) for conds, elem, _ in filters)
                if okf:
                    ctx.ok("R03.2", f, out.node, construct, "ordered best-first; only candidates failing the caller-supplied threshold are dropped (order kept)", wit)
                else:
                    ctx.undecided("R03.2", f, out.node, construct, "candidates are dropped by a condition that is not the threshold test on the caller-supplied threshold", {**wit, "filter": [norm(c) for conds, _, _ in filters for c in conds]})
                continue
            good = len(v.items) == 2
            # every record holds exactly one candidate's score and (ref, pred) labels, all records in
            # the same layout (the consumers take records apart by that layout, see matcher_loop)
            lay = [_record_roles(it_) for it_ in v.items]
            if any(l is None for l in lay) or any(l != lay[0] for l in lay):
                good = False
            if not good:
                ctx.violated("R03.2", f, out.node, construct, f"candidate elements are not (score of the pair, (ref, pred)) for every discovered pair: {v.items!r}", wit)
                continue
            ctx.ok("R03.2", f, out.node, construct, "all candidates kept, elements (score,(ref,pred)), ordered best-first", wit)
        it = holder.get("it")
        if it is not None:
            for node, msg in it.root.problems:
                ctx.violated("R03.2", f, node, f"{f.qual}:binding", msg, {"decreasing": dec})
            if it.root.starmaps == 0:
                ctx.note_unrecognised(f"{f.qual}: scores not computed via pool.starmap")
    ctx.floor("R03.2", 2, "paths")


def _is_trivial_size_guard(n) -> bool:
    """len(x) > 1, len(x) >= 2, len(x) < 2, len(x) <= 1, len(x) == 0/1 (a list of <=1 elements is sorted)."""
    if isinstance(n, ast.UnaryOp) and isinstance(n.op, ast.Not):
        return _is_trivial_size_guard(n.operand)
    if isinstance(n, ast.Compare) and len(n.ops) == 1:
        l, r = n.left, n.comparators[0]
        if isinstance(l, ast.Call) and isinstance(l.func, ast.Name) and l.func.id == "len" and isinstance(r, ast.Constant) and isinstance(r.value, int):
            op, c = type(n.ops[0]), r.value
            return (op in (ast.Gt,) and c == 1) or (op is ast.GtE and c == 2) or (op is ast.Lt and c == 2) or (op is ast.LtE and c == 1) or (op in (ast.Eq, ast.NotEq) and c in (0, 1))
    return False


# ----------------------------------------------------------------------------------------
# R03.3  direction-aware inclusive comparison
# ----------------------------------------------------------------------------------------


def check_ctor_spellings(ctx: Ctx):
    """R03.8 (spellings): a matcher constructor that still accepts an option positionally through a catch-all
    (`*legacy`), next to the keyword-only spelling, stores the same settings for both spellings of the same value."""
    from fractions import Fraction

    prog = ctx.prog
    n = 0
    for cls, f in matcher_classes(ctx):
        init = cls.lookup("__init__")
        if init is None:
            continue
        va = next((p for p in init.call_params if p.kind == "vararg"), None)
        kwonly = [p for p in init.call_params if p.kind == "kwonly" and isinstance(p.default, ast.Constant) and isinstance(p.default.value, bool)]
        if va is None or not kwonly:
            continue
        names = [p.name for p in init.call_params]
        tp = next((x for x in names if "thr" in x.lower()), None)
        mp = next((x for x in names if "metric" in x.lower()), None)
        me = make_metric_objs(prog, False)[1]
        base = {}
        if tp:
            base[tp] = Fraction(1, 2)
        if mp:
            base[mp] = me
        # the catch-all takes the options in the order the keyword-only parameters are declared
        for k, p in enumerate(kwonly[:1]):
            for val in (False, True):
                states = []
                for spelling, extra in (("keyword", {p.name: val}), ("positional", {va.name: (val,)})):
                    o = Obj(cls, {})
                    try:
                        out = Interp(prog, init, {**base, **extra}, self_obj=o).run()
                    except (Undecided, AnchorMissing):
                        out = None
                    if out is None or out.kind == "raise" or out.decisions:
                        states = None
                        break
                    states.append({a: v for a, v in o.attrs.items()})
                construct = f"{init.qual}:{p.name}={val}"
                n += 1
                if states is None:
                    ctx.ok("R03.8", init, init.node, construct, "the catch-all is not a positional spelling of this option (constructor refuses it): not compared", None, nontrivial=False)
                    continue
                diff = sorted(a for a in set(states[0]) | set(states[1]) if repr(states[0].get(a)) != repr(states[1].get(a)))
                ctx.decide("R03.8", init, init.node, construct, "the positional (deprecated) and the keyword spelling of the option store the same settings", not diff, {a: {"keyword": repr(states[0].get(a)), "positional": repr(states[1].get(a))} for a in diff} or None)
    if n == 0:
        ctx.ok("R03.8", None, None, "matcher-constructors:spellings", "no matcher constructor accepts an option in two spellings", None, nontrivial=False)


def check_effective_threshold(ctx: Ctx):
    """R03.8: the threshold a matcher works with is the one it was given - for every NUMBER, including 0
    (a threshold of 0 is the strictest ASSD threshold and the most permissive IoU/Dice threshold).  The
    matcher constructors are run on thresholds 0, 0.0, 0.25, 1.0 with an increasing and a decreasing
    metric; whatever normalisation sits between the parameter and the stored attribute must be the
    identity on numbers."""
    from fractions import Fraction

    prog = ctx.prog
    n = 0
    for cls, f in matcher_classes(ctx):
        init = cls.lookup("__init__")
        if init is None:
            continue
        names = [p.name for p in init.call_params]
        tp = next((x for x in names if "thr" in x.lower()), None)
        mp = next((x for x in names if "metric" in x.lower()), None)
        if tp is None:
            continue
        attr = next((a for a in _threshold_attrs(prog, cls, tp)), None)
        # the metrics of the registry, one per direction: a matcher may accept only some metrics (then the
        # others are refused whatever the threshold - not this rule's business), but one it accepts for one
        # numeric threshold it must accept for every numeric threshold
        from .resultrun import metric_objs as _mo
        from .common import metric_direction as _md

        reg = _mo(prog)
        cands = {False: [m for m in reg if not _md(prog, m)], True: [m for m in reg if _md(prog, m)]}
        for dec in (False, True):
            accepted = None
            for me in cands[dec] or [make_metric_objs(prog, dec)[1]]:
                o_try = Obj(cls, {})
                a_try = {tp: Fraction(1, 4)}
                if mp:
                    a_try[mp] = me
                if Interp(prog, init, a_try, self_obj=o_try).run().kind != "raise":
                    accepted = me
                    break
            if accepted is None:
                continue  # no metric of this direction is accepted by this matcher
            me = accepted
            for thr in (0, 0.0, Fraction(1, 4), 1.0):
                o = Obj(cls, {})
                args = {tp: thr}
                if mp:
                    args[mp] = me
                it = Interp(prog, init, args, self_obj=o)
                out = it.run()
                construct = f"{init.qual}:threshold={thr!r},decreasing={dec}"
                if out.kind == "raise" or out.decisions:
                    ctx.decide("R03.8", init, out.node, construct, "a matcher is constructed for every numeric threshold", None if out.decisions else False, {"outcome": out.kind, "exc": out.exc})
                    continue
                n += 1
                stored = [(k, v) for k, v in o.attrs.items() if "thr" in k.lower()]
                ok = bool(stored) and all(v == thr and type(v) is type(thr) or (isinstance(v, (int, float, Fraction)) and v == thr) for _, v in stored)
                ctx.decide("R03.8", init, init.node, construct, "the stored matching threshold is the given one", ok, {"given": repr(thr), "stored": {k: repr(v) for k, v in stored}})
    if n < 8:
        ctx.undecided("R03.8.floor", None, None, "floor:R03.8", f"{n} matcher constructions evaluated, confirmed floor is 8")


def _threshold_attrs(prog, cls, param):
    return [param]


def check_beats(ctx: Ctx):
    prog = ctx.prog
    sites = [prog.func("metrics.metrics:_Metric.score_beats_threshold"), prog.func("metrics.metrics:Metric.score_beats_threshold")]
    tables = {}
    for f in sites:
        ps = [p.name for p in f.call_params]
        if len(ps) < 2:
            raise AnchorMissing(f"{f.qual}: expected (score, threshold) parameters")
        table = {}
        for dec in (False, True):
            mv, me = make_metric_objs(prog, dec)
            self_obj = me if f.cls.name == "Metric" else mv
            # representatives of the three orderings, including a falsy threshold/score
            # (incl. scores/thresholds that are 0 and a score a hair's breadth off the threshold)
            for cmp_, pairs in (("<", [(0.0, 0.5), (0.25, 0.5), (0.5, 3), (0.499996, 0.5), (0.5 - 2**-40, 0.5)]), ("=", [(0.0, 0.0), (0.5, 0.5), (1, 1)]), (">", [(0.5, 0.0), (1, 0.5), (7, 3), (0.500004, 0.5), (0.5 + 2**-40, 0.5)])):
                vals = set()
                for s, t in pairs:
                    it = Interp(prog, f, {ps[0]: s, ps[1]: t}, self_obj=self_obj)
                    out = it.run()
                    if out.decisions or out.kind != "return" or not isinstance(out.value, bool):
                        ctx.undecided("R03.3", f, f.node, f"{f.qual}", f"comparison body not evaluable on decreasing={dec}, score{cmp_}threshold: {out.kind} {out.value!r}")
                        vals = None
                        break
                    vals.add(out.value)
                if vals is None:
                    continue
                if len(vals) != 1:
                    ctx.violated("R03.3", f, f.node, f"{f.qual}", f"result depends on magnitudes, not only on the ordering of score and threshold (decreasing={dec}, score{cmp_}threshold)", {"decreasing": dec, "cmp": cmp_, "pairs": pairs})
                    continue
                got = vals.pop()
                table[(dec, cmp_)] = got
                want = (dec, cmp_) in BEATS_REF
                ctx.decide("R03.3", f, f.node, f"{f.qual}:row(decreasing={dec},score{cmp_}thr)", f"score_beats_threshold == {want}", got == want, {"decreasing": dec, "cmp": cmp_, "got": got, "want": want})
        tables[f.qual] = table
    qs = list(tables)
    if len(qs) == 2 and tables[qs[0]] != tables[qs[1]]:
        ctx.violated("R03.3", sites[1], sites[1].node, "siblings", "Metric.score_beats_threshold and _Metric.score_beats_threshold disagree", {k: str(v) for k, v in tables.items()})
    ctx.floor("R03.3", 12, "truth-table rows")


def check_metric_twins(ctx: Ctx):
    """R03.9 (sibling agreement): the metric enum mirrors decision helpers of the metric value class (the matchers
    call the enum's copy).  Every helper defined on both with the same parameters is evaluated on a grid of
    rational arguments for both metric directions; the two copies must return the same value everywhere."""
    from itertools import product

    from .common import metric_enum_class, metric_value_class

    prog = ctx.prog
    ecls, vcls = metric_enum_class(prog), metric_value_class(prog)
    grid = (Fraction(0), Fraction(1, 4), Fraction(1, 2), Fraction(3, 4), Fraction(1))
    n = 0
    for name in sorted(set(ecls.methods) & set(vcls.methods)):
        fe, fv = ecls.methods[name], vcls.methods[name]
        if name.startswith("__") or any(isinstance(d, ast.Name) and d.id == "property" for d in fe.node.decorator_list + fv.node.decorator_list):
            continue
        pe, pv_ = [p.name for p in fe.call_params], [p.name for p in fv.call_params]
        if pe != pv_ or not pe or len(pe) > 3 or any(p.kind in ("vararg", "kwarg") for p in fe.call_params + fv.call_params):
            continue
        # a copy that merely forwards to the other one agrees by construction (and is run anyway)
        construct = f"{ecls.name}.{name}~{vcls.name}.{name}"
        verdict, witness, pts = True, None, 0
        for dec in (False, True):
            mv, me = make_metric_objs(prog, dec)
            for vals in product(grid, repeat=len(pe)):
                res = []
                for f_, so in ((fe, me), (fv, mv)):
                    try:
                        out = Interp(prog, f_, dict(zip(pe, vals)), self_obj=so).run()
                    except (Undecided, AnchorMissing) as e:
                        verdict, witness = None, {"why": f"{f_.qual} not evaluable: {e}"}
                        break
                    if out.decisions or out.kind not in ("return", "raise") or isinstance(out.value, Unknown):
                        verdict = None
                        witness = {"why": f"{f_.qual} not evaluable on {[str(v) for v in vals]}: {out.kind} {out.value!r}"}
                        break
                    res.append((out.kind, out.value if out.kind == "return" else out.exc))
                if verdict is None:
                    break
                pts += 1
                if res[0] != res[1]:
                    verdict, witness = False, {"lower_is_better": dec, "arguments": dict(zip(pe, (str(v) for v in vals))), fe.qual: repr(res[0][1]), fv.qual: repr(res[1][1])}
                    break
            if verdict is not True:
                break
        n += 1
        if verdict is None:
            ctx.ok("R03.9", fe, fe.node, construct, "helper not a function of numbers: not compared", witness, nontrivial=False)
        else:
            ctx.decide("R03.9", fe, fe.node, construct, f"both copies of the helper return the same value on a grid of arguments ({pts} points, both directions)", verdict, witness)
    if n == 0:
        ctx.ok("R03.9", None, None, "metric-twins:none", "no helper is defined on both metric classes", None, nontrivial=False)


# ----------------------------------------------------------------------------------------
# R03.4 / R03.5  greedy assignment
# ----------------------------------------------------------------------------------------


def matcher_classes(ctx: Ctx):
    base = ctx.prog.cls("instance_matcher:InstanceMatchingAlgorithm")
    out = []
    for c in base.all_subclasses():
        m = c.methods.get("_match_instances")
        if m is not None:
            out.append((c, m))
    return sorted(out, key=lambda x: x[0].name)


def add_entry_func(ctx: Ctx) -> Func:
    api = labelmap_api(ctx.prog)
    # the member that stores the entry itself (not one that forwards to it)
    own = [n for n in sorted(api["add"]) if any(isinstance(st, ast.Assign) and any(isinstance(t, ast.Subscript) for t in st.targets) for st in walk_no_nested(api["cls"].methods[n].node))]
    return api["cls"].methods[own[0]]


def pure_labelmap_method(prog):
    lm = prog.cls("utils.instancelabelmap:InstanceLabelMap")

    def pure(recv, meth, call):
        m = lm.lookup(meth)
        if m is None:
            # not a label-map method: insertions into local tracking collections do not change what
            # a guard evaluated earlier established about the label map
            return True
        for n in walk_no_nested(m.node):
            if isinstance(n, (ast.Assign, ast.AugAssign)):
                tg = n.targets if isinstance(n, ast.Assign) else [n.target]
                for t in tg:
                    if isinstance(t, (ast.Subscript, ast.Attribute)):
                        return False
        return True

    return pure


def candidate_prefilter(ctx: Ctx, f: Func) -> tuple[Optional[ast.expr], Optional[str]]:
    """Does the matcher `f` obtain its candidates already filtered by its own threshold?
    Returns (threshold argument expression, None) if the candidate generator, given a threshold
    that is a number (possibly 0), returns on EVERY path only candidates passing
    metric.score_beats_threshold(score, threshold); (None, reason) if a threshold is handed over but
    some path does not filter; (None, None) if no threshold is handed over."""
    prog = ctx.prog
    gen = prog.func("_functionals:_calc_matching_metric_of_overlapping_labels")
    overlap = prog.func("_functionals:_calc_overlapping_labels")
    thr_param = next((p.name for p in gen.params if "thr" in p.name.lower()), None)
    metric_param = next((p.name for p in gen.params if "metric" in p.name.lower()), None)
    if thr_param is None:
        return None, None
    thr_arg = None
    for c in calls_resolving_to(prog, f, gen):
        b, problems = bind_args(gen, c)
        if thr_param in b and not (isinstance(b[thr_param], ast.Constant) and b[thr_param].value is None):
            thr_arg = b[thr_param]
    if thr_arg is None:
        return None, None
    for dec in (False, True):
        mv, me = make_metric_objs(prog, dec)
        args = {}
        for p in gen.params:
            lp = p.name.lower()
            args[p.name] = Sym("PRED_ARR") if lp.startswith("pred") else Sym("REF_LABELS") if ("label" in lp and lp.startswith("ref")) else Sym("REF_ARR") if lp.startswith("ref") else me if "metric" in lp else _Thr("threshold") if p.name == thr_param else Unknown("param:" + p.name)
        its_ = []

        def make(prefix, args=args, me=me):
            it = CandInterp(prog, gen, dict(args), me, overlap, prefix=prefix)
            its_.append(it)
            return it

        outs = enumerate_paths(make)
        for out, it in zip(outs, its_):
            if out.kind != "return":
                continue
            filters = it.root.__dict__.get("filters", [])
            ok = bool(filters) and all(len(conds) == 1 and _is_beats_filter(prog, gen, conds[0], elem, metric_param, thr_param) for conds, elem, _ in filters)
            if not ok:
                dtxt = "; ".join(f"{norm(n) if isinstance(n, ast.AST) else '?'}={d}" for n, v, d in out.decisions if isinstance(v, _Thr))
                return None, f"{gen.qual} returns unfiltered candidates when [{dtxt or 'always'}] although a threshold (a number, possibly 0) was handed over"
    return thr_arg, None


def check_naive(ctx: Ctx, only: Optional[str] = "NaiveThresholdMatching"):
    prog = ctx.prog
    add = add_entry_func(ctx)
    n_sites = 0
    for cls, f in matcher_classes(ctx):
        if only and cls.name != only:
            continue
        try:
            loop, score, ref, pred = matcher_loop(prog, f)
        except AnchorMissing as e0:
            # the greedy loop does not sit in the matcher's own method (a shared helper, a generator ...): the
            # path-condition rules have nothing to read; the matcher is decided by its run alone
            if cls.name != "NaiveThresholdMatching":
                raise
            try:
                gv, gw, gruns = greedy_run(ctx, cls, f)
            except (Undecided, AnchorMissing, RaiseSignal) as e:
                gv, gw, gruns = None, {"why": f"{type(e).__name__}: {e}"}, 0
            if gv is None:
                ctx.undecided("R03.4", f, f.node, f"{f.qual}:greedy-run", f"candidate loop not found in the matcher's method ({e0}) and the matcher could not be run: {gw}")
            else:
                ctx.decide("R03.4g", f, f.node, f"{f.qual}:greedy-run", "on every ordering of the candidates of two scenario families, every outcome of the threshold tests and both many-to-one settings the returned label map is the greedy one", gv, gw or {"runs": gruns})
                n_sites += 1
            continue
        atoms = MatcherAtoms(ctx, f, pred, ref, score)
        init = cls.lookup("__init__")
        if init is not None and any(p.name == "allow_many_to_one" for p in init.params):
            atoms.form.domains.setdefault("cfg:allow_many_to_one", [False, True])
        calls = [c for c in calls_resolving_to(prog, f, add)]
        thr_key = None
        gv = gw = None
        if cls.name == "NaiveThresholdMatching":
            try:
                gv, gw, gruns = greedy_run(ctx, cls, f)
            except (Undecided, AnchorMissing, RaiseSignal) as e:
                gv, gw, gruns = None, {"why": f"{type(e).__name__}: {e}"}, 0
            if gv is not None:
                ctx.decide("R03.4g", f, f.node, f"{f.qual}:greedy-run", "on every ordering of four candidates over two reference and two prediction labels, every outcome of the threshold tests and both many-to-one settings the returned label map is the greedy one", gv, gw or {"runs": gruns})
        for c in calls:
            n_sites += 1
            construct = f"{f.qual}->add_labelmap_entry"
            # an assignment whose rejection by the label map is caught and skipped ("ask forgiveness"): the
            # guard lives in the label map, the path condition says nothing - decided by the greedy run
            eafp = _caught_and_skipped(prog, f, c, add)
            if eafp:
                if gv is None:
                    ctx.undecided("R03.4b", f, c, construct, f"assignment relies on the label map rejecting conflicting entries and the matcher could not be run: {gw}")
                continue
            binding, problems = bind_args(add, c)
            pa = binding.get(add.call_params[0].name)
            ra = binding.get(add.call_params[1].name) if len(add.call_params) > 1 else None
            okb = isinstance(pa, ast.Name) and pa.id == pred and isinstance(ra, ast.Name) and ra.id == ref
            ctx.decide("R03.4", f, c, construct + ":binding", "label map entry binds (prediction label -> reference label) of the candidate", True if okb else (False if isinstance(pa, ast.Name) and isinstance(ra, ast.Name) and {pa.id, ra.id} == {pred, ref} else None), {"pred_arg": norm(pa) if pa else None, "ref_arg": norm(ra) if ra else None})
            if not any(x is loop for x in _ancestors(prog, f, c)):
                ctx.undecided("R03.4", f, c, construct, "assignment outside the candidate loop")
                continue
            pcs = path_condition(f, c)
            stale = [pc for pc in pcs if is_stale(pc, pure_labelmap_method(prog))]
            prem = [atoms.form.compile(pc.expr) if pc.polarity else _neg(atoms.form.compile(pc.expr)) for pc in pcs if pc not in stale]
            # the threshold test may have moved into the candidate generator: every candidate of the
            # loop then already passed it (established by running the generator, see candidate_prefilter)
            pre_thr, pre_why = candidate_prefilter(ctx, f)
            if pre_thr is not None:
                mexpr = next((n for n in walk_no_nested(f.node) if isinstance(n, ast.keyword) and n.arg and "metric" in n.arg), None)
                synth = ast.parse(f"{norm(mexpr.value) if mexpr is not None else 'self._matching_metric'}.score_beats_threshold({score}, {norm(pre_thr)})", mode="eval").body
                ast.copy_location(synth, c)
                ast.fix_missing_locations(synth)
                prem.append(atoms.form.compile(synth))
            form = atoms.form
            dec_key = next((k for k in form.domains if k.startswith("dec:")), None)
            cmp_key = _score_thr_key(form, score)
            m2o = "cfg:allow_many_to_one" if "cfg:allow_many_to_one" in form.domains else None
            pc_txt = " and ".join(pc.text() for pc in pcs)

            # (a) every assigned pair meets the threshold
            if dec_key and cmp_key:
                key, flip = cmp_key
                def beats(a, key=key, flip=flip, dec_key=dec_key):
                    c_ = a[key]
                    if flip:
                        c_ = {"<": ">", ">": "<", "=": "="}[c_]
                    return (a[dec_key], c_) in BEATS_REF
                v, w = implication(form, prem, beats, atoms.feasible)
                if stale and v is False:
                    v = None
                ctx.decide("R03.4a", f, c, construct, "path condition implies: score meets the threshold in the metric's direction (inclusive)", v, {"row": w, "path_condition": pc_txt} if w else {"path_condition": pc_txt})
            else:
                # no modelled score/threshold comparison on the path: a definite violation only if the
                # path condition contains nothing unmodelled that could be that comparison in disguise
                ctx.decide("R03.4a", f, c, construct, "assignment is guarded by a comparison of the candidate's score with the matching threshold", None if form.opaque else False, {"path_condition": pc_txt, "unmodelled_conditions": sorted(form.opaque.values())[:4], **({"candidate_generator": pre_why} if pre_why else {})})
            # (b) prediction not yet assigned (callee's raise condition excluded => terminates with a result)
            v, w = implication(form, prem, lambda a: not a["cp"], atoms.feasible)
            if stale and v is False:
                v = None
            by_run = lambda v_, w_: v_ is not True and gv is True and bool(form.opaque) and (w_ is None or (isinstance(w_, dict) and any(str(k).startswith("?") for k in w_)))
            if by_run(v, w):
                # the guard goes through a condition this rule cannot read (a helper of the label map ...): the
                # matcher's run (R03.4g) found the assignment greedy on every scenario - decided there
                v, w = True, None
            ctx.decide("R03.4b", f, c, construct, "path condition implies: prediction label not yet assigned (at most one reference per prediction; add_labelmap_entry cannot raise)", v, {"row": w, "path_condition": pc_txt} if w else {"path_condition": pc_txt})
            # (c) one-to-one unless many-to-one is allowed
            if m2o:
                prem_c = prem + [lambda a, m2o=m2o: not a[m2o]]
            else:
                prem_c = prem
            if cls.name == "NaiveThresholdMatching":
                v, w = implication(form, prem_c, lambda a: not a["cr"], atoms.feasible)
                if stale and v is False:
                    v = None
                if by_run(v, w):
                    v, w = True, None
                ctx.decide("R03.4c", f, c, construct, "path condition and not allow_many_to_one implies: reference label not yet assigned (one-to-one)", v, {"row": w, "path_condition": pc_txt} if w else {"path_condition": pc_txt})
                # (d) maximality: an eligible pair with both partners free is assigned
                #     i.e. (not cp and not cr and beats) => PC   -- PC must not be stronger than needed
                if dec_key and cmp_key:
                    pcf = lambda a, prem=prem: all(p(a) for p in prem)
                    core = {"cp", "cr", m2o, dec_key, cmp_key[0]}

                    def beyond_core(v_, w_):
                        # a counter-row that needs facts this rule does not know to be compatible (lengths of lists,
                        # counters of an early exit) may be infeasible: where the matcher's run (R03.4g) found the
                        # assignment maximal on every scenario, such a row is not reported
                        return v_ is not True and gv is True and (not isinstance(w_, dict) or any(k not in core for k in w_))

                    v, w = implication(form, [lambda a: not a["cp"], lambda a: not a["cr"], beats], pcf, atoms.feasible)
                    if not beyond_core(v, w):
                        ctx.decide("R03.4d", f, c, construct, "an eligible pair whose partners are both unassigned reaches the assignment (maximality)", v, {"row": w, "path_condition": pc_txt} if w else {"path_condition": pc_txt})
                    if m2o:
                        # with many-to-one, an eligible pair with a free prediction is assigned even if the reference is taken
                        v, w = implication(form, [lambda a: not a["cp"], lambda a, m2o=m2o: a[m2o], beats], pcf, atoms.feasible)
                        if not beyond_core(v, w):
                            ctx.decide("R03.4e", f, c, construct, "with allow_many_to_one an eligible pair with an unassigned prediction reaches the assignment", v, {"row": w, "path_condition": pc_txt} if w else {"path_condition": pc_txt})
        # R03.5: the loop visits every candidate: no break / return / raise inside the loop
        bad = [n for n in ast.walk(loop) if isinstance(n, (ast.Break, ast.Return, ast.Raise))]
        # leaving the loop early is harmless exactly if no later candidate could still be taken: that is what the
        # matcher's run decides (R03.4g, every ordering and threshold outcome); without it an early exit stands as reported
        early_ok = bool(bad) and gv is True and all(isinstance(b, ast.Break) for b in bad)
        ctx.decide("R03.5", f, loop, f"{f.qual}:loop", "every candidate is considered: the candidate loop has no break/return/raise, or leaves early only where the run of the matcher shows that nothing more can be taken", (not bad) or early_ok, {"exits": [f"{type(b).__name__}@{b.lineno}" for b in bad]} if bad else None)
        # the returned value is the label map filled in the loop
        rets = [n for n in walk_no_nested(f.node) if isinstance(n, ast.Return)]
        lm_vars = {t.id for n in walk_no_nested(f.node) if isinstance(n, ast.Assign) and isinstance(n.value, ast.Call) and dotted(n.value.func) == "InstanceLabelMap" for t in n.targets if isinstance(t, ast.Name)}
        okr = bool(rets) and all(isinstance(r.value, ast.Name) and r.value.id in lm_vars for r in rets)
        ctx.decide("R03.5", f, rets[0] if rets else f.node, f"{f.qual}:return", "matcher returns the label map it filled", True if okr else None)
    return n_sites


def _caught_and_skipped(prog, f: Func, call: ast.Call, add: Func) -> bool:
    """the call sits in a try whose handler catches what the adder raises and does nothing but move on"""
    raised = set()
    for fn in [add] + [m for m in (add.cls.methods.values() if add.cls else [])]:
        for n in walk_no_nested(fn.node):
            if isinstance(n, ast.Raise) and n.exc is not None:
                e = n.exc.func if isinstance(n.exc, ast.Call) else n.exc
                raised.add((dotted(e) or "").split(".")[-1])
    pm = prog.parents(f)
    cur = call
    while id(cur) in pm:
        par = pm[id(cur)]
        if isinstance(par, ast.Try) and any(cur is st or any(cur is x for x in ast.walk(st)) for st in par.body):
            for h in par.handlers:
                hn = {(dotted(x) or "").split(".")[-1] for x in (h.type.elts if isinstance(h.type, ast.Tuple) else [h.type])} if h.type is not None else {"BaseException"}
                body_ok = all(isinstance(st, (ast.Continue, ast.Pass)) or (isinstance(st, ast.Expr) and isinstance(st.value, (ast.Constant, ast.Call))) for st in h.body)
                if body_ok and (hn & (raised | {"Exception", "BaseException"})):
                    return True
        cur = par
    return False


def _build_record(layout: dict, score, ref, pred):
    """a candidate record in the generator's own layout"""
    def build(prefix):
        if prefix in layout:
            return {"score": score, "ref": ref, "pred": pred}[layout[prefix]]
        width = max((p[len(prefix)] for p in layout if p[: len(prefix)] == prefix and len(p) > len(prefix)), default=-1) + 1
        return tuple(build(prefix + (i,)) for i in range(width))

    return build(())


_MRI = []


def matcher_run_interp():
    """Interpreter for bounded runs of a matcher: the candidate generator hands out the scenario's records,
    threshold tests and comparisons of two scores are decisions named after the scores involved, the metric
    applied to a merged prediction is a score named after the reference and the merged prediction labels."""
    if _MRI:
        return _MRI[0]
    from .resultrun import ResultInterp

    class MatcherRunInterp(ResultInterp):
        def external_call(self, name, args, kwargs, node):
            if name == self.root.gen.qual:
                return list(self.root.records)
            if name in ("numpy.all", "numpy.any") and len(args) == 1 and isinstance(args[0], (list, tuple)) and all(isinstance(x, bool) for x in args[0]):
                return all(args[0]) if name.endswith("all") else any(args[0])
            return super().external_call(name, args, kwargs, node)

        def call_func(self, f_, args, kwargs, node, self_obj=None):
            if f_.cls is not None and f_.cls.name in ("Metric", "_Metric"):
                if f_.name == "score_beats_threshold":
                    sc = args[0] if args else next(iter(kwargs.values()), None)
                    if isinstance(sc, Sym) and sc.name.startswith("score"):
                        return self.root.beats.setdefault(sc.name, Unknown("beats:" + sc.name))
                if f_.name == "__call__":
                    b = dict(zip([p.name for p in f_.call_params], args))
                    b.update(kwargs)
                    ri = next((v for k, v in b.items() if "ref" in k.lower() and ("idx" in k.lower() or "label" in k.lower())), None)
                    pi = next((v for k, v in b.items() if "pred" in k.lower() and ("idx" in k.lower() or "label" in k.lower())), None)
                    if isinstance(ri, int) and isinstance(pi, (list, tuple, int)):
                        ps = sorted(pi) if isinstance(pi, (list, tuple)) else [pi]
                        return Sym(f"comb[{ri}|{','.join(str(x) for x in ps)}]")
            return super().call_func(f_, args, kwargs, node, self_obj=self_obj)

        def binop_hook(self, op, l, r, node):
            # a score plus / minus a margin of zero is that score
            if isinstance(op, (ast.Add, ast.Sub)) and isinstance(l, Sym) and l.name.startswith(("score", "comb[")) and isinstance(r, (int, float, Fraction)) and not isinstance(r, bool) and r == 0:
                return l
            if isinstance(op, ast.Add) and isinstance(r, Sym) and r.name.startswith(("score", "comb[")) and isinstance(l, (int, float, Fraction)) and not isinstance(l, bool) and l == 0:
                return r
            return super().binop_hook(op, l, r, node)

        def compare_hook(self, op, l, r, node):
            if isinstance(l, Sym) and isinstance(r, Sym) and all(x.name.startswith(("score", "comb[")) for x in (l, r)) and isinstance(op, (ast.Lt, ast.LtE, ast.Gt, ast.GtE)):
                key = (l.name, type(op).__name__, r.name)
                return self.root.cmps.setdefault(key, Unknown("cmp:" + "\t".join(key)))
            return super().compare_hook(op, l, r, node)

    _MRI.append(MatcherRunInterp)
    return MatcherRunInterp


def merge_run(ctx: Ctx, cls, f):
    """The merging matcher run on every ordering of four candidates (three predictions on one reference,
    one of them also on a second reference), every outcome of its threshold tests and score comparisons,
    and both metric directions.  Replayed against the specification with the same outcomes: an unmatched
    reference takes a free prediction that meets the threshold; a matched reference takes a further free
    prediction iff the score of the merged prediction (the metric applied to exactly the predictions
    matched so far plus the new one) is strictly better than the score recorded for it, which then
    becomes the recorded score.  Returns (verdict, witness, runs)."""
    from fractions import Fraction
    from itertools import permutations

    from .common import candidate_layout
    from .resultrun import ResultInterp

    prog = ctx.prog
    gen = prog.func("_functionals:_calc_matching_metric_of_overlapping_labels")
    pcls = prog.cls("utils.processing_pair:UnmatchedInstancePair")
    init = cls.lookup("__init__")
    api = labelmap_api(prog)
    layout = candidate_layout(prog)
    names = [p.name for p in init.call_params] if init is not None else []
    tp = next((x for x in names if "thr" in x.lower()), None)
    mp = next((x for x in names if "metric" in x.lower()), None)
    pairs = [(1, 1), (1, 2), (1, 3), (2, 3)]  # (reference label, prediction label)
    runs = 0
    for dec in (False, True):
        mv, me = make_metric_objs(prog, dec)
        matcher = Obj(cls, {})
        if init is not None:
            a = {}
            if tp:
                a[tp] = Fraction(1, 2)
            if mp:
                a[mp] = me
            o0 = ResultInterp(prog, init, a, self_obj=matcher, metrics=[me]).run()
            if o0.kind == "raise" or o0.decisions:
                return None, {"why": f"constructor not evaluable: {o0.kind} {o0.exc}"}, runs
        for order in permutations(range(4)):
            records = [_build_record(layout, Sym(f"score{i}"), pairs[i][0], pairs[i][1]) for i in order]

            def make(prefix, records=records):
                pair = Obj(pcls, {"_prediction_arr": Sym("PRED_ARR"), "_reference_arr": Sym("REF_ARR"), "_ref_labels": (1, 2), "_pred_labels": (1, 2, 3), "n_dim": 3, "n_prediction_instance": 3, "n_reference_instance": 2})
                params = [p.name for p in f.call_params]
                it = matcher_run_interp()(prog, f, {**({params[0]: pair} if params else {}), f.self_name: matcher}, metrics=[me], prefix=prefix)
                it.root.no_inline = {gen.qual}
                it.root.gen = gen
                it.root.records = records
                it.root.beats = {}
                it.root.cmps = {}
                return it

            outs = enumerate_paths(make, max_paths=256)
            for out in outs:
                runs += 1
                beats, cmps, other = {}, {}, []
                for nd, v, d in out.decisions:
                    tag = str(getattr(v, "tag", ""))
                    if isinstance(v, Unknown) and tag.startswith("beats:score"):
                        beats[int(tag[11:])] = d
                    elif isinstance(v, Unknown) and tag.startswith("cmp:"):
                        cmps[tuple(tag[4:].split("\t"))] = d
                    else:
                        other.append(norm(nd) if isinstance(nd, ast.AST) else str(v))
                scen = {"order": [pairs[i] for i in order], "lower_is_better": dec, "meets_threshold": {f"score{k}": v for k, v in beats.items()}, "comparisons": {" ".join(k): v for k, v in cmps.items()}}
                if other:
                    return None, {"why": f"matcher splits on {other[:3]}", **scen}, runs
                if out.kind != "return" or not isinstance(out.value, Obj):
                    return False, {"outcome": f"{out.kind} {out.exc or ''}".strip(), **scen}, runs
                got = out.value.attrs.get(api["dict_attr"])
                if not isinstance(got, dict):
                    return None, {"why": f"label map state not readable ({api['dict_attr']})", **scen}, runs
                want, members, rec = {}, {}, {}
                for i in order:
                    r, p_ = pairs[i]
                    if p_ in want:
                        continue
                    if r in members:
                        comb = f"comb[{r}|{','.join(str(x) for x in sorted(members[r] + [p_]))}]"
                        better = None
                        for (l_, o_, r_), d in cmps.items():
                            if {l_, r_} != {comb, rec[r]}:
                                continue
                            # "comb is strictly better than rec" in the metric's direction
                            strict_better = ("Lt" if dec else "Gt") if l_ == comb else ("Gt" if dec else "Lt")
                            not_better = ("GtE" if dec else "LtE") if l_ == comb else ("LtE" if dec else "GtE")
                            if o_ == strict_better:
                                better = d
                            elif o_ == not_better:
                                better = not d
                            else:
                                return False, {"why": f"merged score {comb} and recorded score {rec[r]} are compared with {o_}: not a test for a strict improvement in the metric's direction", **scen}, runs
                        if better is None:
                            return False, {"why": f"prediction {p_} on matched reference {r}: the score of the merged prediction {comb} was not compared with the recorded score {rec[r]}", **scen}, runs
                        if better:
                            want[p_] = r
                            members[r].append(p_)
                            rec[r] = comb
                    else:
                        if i not in beats:
                            return False, {"why": f"free prediction {p_} on unmatched reference {r}: threshold test not made", **scen}, runs
                        if beats[i]:
                            want[p_] = r
                            members[r] = [p_]
                            rec[r] = f"score{i}"
                if dict(got) != want:
                    return False, {"got": {str(k): v for k, v in got.items()}, "specified": {str(k): v for k, v in want.items()}, **scen}, runs
    return True, None, runs


def greedy_run(ctx: Ctx, cls, f):
    """The threshold matcher run on every ordering of the four candidates over two reference and two
    prediction labels, for every outcome of the four threshold tests and both many-to-one settings
    (the exceptions it raises and catches included).  The label map it returns must be the greedy one:
    a candidate is taken iff it meets the threshold, its prediction is free and (its reference is
    free or many-to-one is allowed).  Returns (verdict, witness, runs)."""
    from fractions import Fraction
    from itertools import permutations

    from .common import candidate_layout
    from .resultrun import ResultInterp

    prog = ctx.prog
    gen = prog.func("_functionals:_calc_matching_metric_of_overlapping_labels")
    pcls = prog.cls("utils.processing_pair:UnmatchedInstancePair")
    init = cls.lookup("__init__")
    api = labelmap_api(prog)
    layout = candidate_layout(prog)
    names = [p.name for p in init.call_params] if init is not None else []
    tp = next((x for x in names if "thr" in x.lower()), None)
    mp = next((x for x in names if "metric" in x.lower()), None)
    op = next((x for x in names if "many" in x.lower()), None)
    runs = 0
    total_v, total_w = True, None
    for pairs, plabels in (([(1, 1), (1, 2), (2, 1), (2, 2)], (1, 2)), ([(1, 1), (1, 2), (2, 3), (2, 1)], (1, 2, 3))):  # (reference label, prediction label); second family: more predictions than references
        v_, w_, r_ = _greedy_family(ctx, cls, f, pairs, plabels)
        runs += r_
        if v_ is not True:
            return v_, w_, runs
    return True, None, runs


def _greedy_family(ctx: Ctx, cls, f, pairs, plabels):
    from fractions import Fraction
    from itertools import permutations

    from .common import candidate_layout
    from .resultrun import ResultInterp

    prog = ctx.prog
    gen = prog.func("_functionals:_calc_matching_metric_of_overlapping_labels")
    pcls = prog.cls("utils.processing_pair:UnmatchedInstancePair")
    init = cls.lookup("__init__")
    api = labelmap_api(prog)
    layout = candidate_layout(prog)
    names = [p.name for p in init.call_params] if init is not None else []
    tp = next((x for x in names if "thr" in x.lower()), None)
    mp = next((x for x in names if "metric" in x.lower()), None)
    op = next((x for x in names if "many" in x.lower()), None)
    runs = 0
    # a matcher whose candidate generator already applies the matcher's own threshold (established by running
    # the generator, candidate_prefilter) receives passing candidates only: the scenario's candidates all pass
    try:
        prefiltered = candidate_prefilter(ctx, f)[0] is not None
    except (Undecided, AnchorMissing):
        prefiltered = False

    for m2o in ((False, True) if op else (None,)):
        mv, me = make_metric_objs(prog, False)
        matcher = Obj(cls, {})
        if init is not None:
            a = {}
            if tp:
                a[tp] = Fraction(1, 2)
            if mp:
                a[mp] = me
            if op:
                a[op] = m2o
            o0 = ResultInterp(prog, init, a, self_obj=matcher, metrics=[me]).run()
            if o0.kind == "raise" or o0.decisions:
                return None, {"why": f"constructor not evaluable: {o0.kind} {o0.exc}"}, runs
        for order in permutations(range(4)):
            records = [_build_record(layout, Sym(f"score{i}"), pairs[i][0], pairs[i][1]) for i in order]
            its = []

            def make(prefix, records=records):
                pair = Obj(pcls, {"_prediction_arr": Sym("PRED_ARR"), "_reference_arr": Sym("REF_ARR"), "_ref_labels": (1, 2), "_pred_labels": tuple(plabels), "n_dim": 3, "n_prediction_instance": len(plabels), "n_reference_instance": 2})
                params = [p.name for p in f.call_params]
                it = matcher_run_interp()(prog, f, {**({params[0]: pair} if params else {}), f.self_name: matcher}, metrics=[me], prefix=prefix)
                it.root.no_inline = {gen.qual}
                it.root.gen = gen
                it.root.records = records
                it.root.beats = {}
                it.root.cmps = {}
                its.append(it)
                return it

            outs = enumerate_paths(make, max_paths=64)
            for out in outs:
                runs += 1
                beats = {}
                other = []
                for nd, v, d in out.decisions:
                    if isinstance(v, Unknown) and str(v.tag).startswith("beats:score"):
                        beats[int(str(v.tag)[11:])] = d
                    else:
                        other.append(norm(nd) if isinstance(nd, ast.AST) else str(v))
                scen = {"order": [pairs[i] for i in order], "meets_threshold": [beats.get(i) for i in order], "allow_many_to_one": m2o}
                if other:
                    return None, {"why": f"matcher splits on {other[:3]}", **scen}, runs
                # the candidates arrive best score first (R03.2) and the threshold test is monotone in the score:
                # once a candidate fails it, none of the later ones can pass - other outcomes cannot occur
                seq_ = [beats[i] for i in order if i in beats]
                if any(b and not all(seq_[:k]) for k, b in enumerate(seq_)):
                    runs -= 1
                    continue
                want = {}
                for i in order:
                    r, p_ = pairs[i]
                    if i not in beats and not prefiltered:
                        continue  # not tested on this path: only possible for a candidate that could not be taken anyway
                    if beats.get(i, True) and p_ not in want and (m2o or r not in want.values()):
                        want[p_] = r
                # a candidate whose test was skipped must indeed have been blocked
                # ... or comes after a candidate that failed the threshold (so it fails as well), or after every prediction was assigned
                blocked_ok = prefiltered or all(pairs[i][1] in want or (not m2o and pairs[i][0] in want.values()) or any(beats.get(j) is False for j in order[: order.index(i)]) for i in order if i not in beats)
                if out.kind != "return" or not isinstance(out.value, Obj):
                    return False, {"outcome": f"{out.kind} {out.exc or ''}".strip(), **scen}, runs
                got = out.value.attrs.get(api["dict_attr"])
                if not isinstance(got, dict):
                    return None, {"why": f"label map state not readable ({api['dict_attr']})", **scen}, runs
                got = {k: v for k, v in got.items()}
                if got != want or not blocked_ok:
                    why = {} if got != want else {"why": "a candidate was never tested against the threshold although nothing rules it out (its prediction is free, its reference free or shareable, no earlier candidate failed): had it passed, it would be missing", "untested": [pairs[i] for i in order if i not in beats]}
                    return False, {"got": {str(k): v for k, v in got.items()}, "greedy": {str(k): v for k, v in want.items()}, **why, **scen}, runs
    return True, None, runs


def _score_thr_key(form: Formula, score: str):
    for k in form.domains:
        if k.startswith("cmp:"):
            a, b = k[4:].split("|")
            if a == score and b.startswith("cfg:") and "threshold" in b:
                return k, False
            if b == score and a.startswith("cfg:") and "threshold" in a:
                return k, True
    return None


def _neg(fn):
    return lambda a: not fn(a)


def _ancestors(prog, f, node):
    pm = prog.parents(f)
    out = []
    cur = node
    while id(cur) in pm:
        cur = pm[id(cur)]
        out.append(cur)
    return out


def _label_names(f: Func) -> tuple[set, set]:
    pred, ref = set(), set()
    for n in ast.walk(f.node):
        if isinstance(n, ast.Name):
            l = n.id.lower()
            if l.startswith("pred") and ("label" in l or "idx" in l):
                pred.add(n.id)
            elif l.startswith("ref") and ("label" in l or "idx" in l):
                ref.add(n.id)
    return pred, ref


def check_no_pruning(ctx: Ctx):
    """R03.6 [N]: candidates must not be reduced to one per label before the greedy loop.
    Recognised: a local dict keyed by a single (prediction or reference) label - or by a
    component of a candidate pair - whose values()/items() feed the returned candidate list
    or the iterable of the greedy loop."""
    prog = ctx.prog
    funcs = [prog.func("_functionals:_calc_overlapping_labels"), prog.func("_functionals:_calc_matching_metric_of_overlapping_labels")]
    funcs += [m for _, m in matcher_classes(ctx)]
    n = 0
    for f in funcs:
        dicts = {}
        for node in walk_no_nested(f.node):
            tgt = val = None
            if isinstance(node, ast.Assign) and len(node.targets) == 1 and isinstance(node.targets[0], ast.Name):
                tgt, val = node.targets[0].id, node.value
            elif isinstance(node, ast.AnnAssign) and isinstance(node.target, ast.Name) and node.value is not None:
                tgt, val = node.target.id, node.value
            if tgt and (isinstance(val, ast.Dict) and not val.keys or (isinstance(val, ast.Call) and dotted(val.func) in ("dict", "collections.defaultdict", "defaultdict", "OrderedDict"))):
                dicts[tgt] = node
        if not dicts:
            continue
        # keyed stores
        keyed = {}
        for node in walk_no_nested(f.node):
            d = k = None
            if isinstance(node, ast.Assign) and len(node.targets) == 1 and isinstance(node.targets[0], ast.Subscript) and isinstance(node.targets[0].value, ast.Name):
                d, k = node.targets[0].value.id, node.targets[0].slice
            elif isinstance(node, ast.Call) and isinstance(node.func, ast.Attribute) and node.func.attr == "setdefault" and isinstance(node.func.value, ast.Name) and node.args:
                d, k = node.func.value.id, node.args[0]
            if d in dicts and k is not None and not isinstance(k, ast.Tuple):
                keyed.setdefault(d, []).append((node, k))
        if not keyed:
            continue
        # names derived from the dict
        derived = {d: {d} for d in keyed}
        changed = True
        while changed:
            changed = False
            for node in walk_no_nested(f.node):
                if isinstance(node, ast.Assign) and len(node.targets) == 1 and isinstance(node.targets[0], ast.Name):
                    used = {x.id for x in ast.walk(node.value) if isinstance(x, ast.Name)}
                    for d, s_ in derived.items():
                        if used & s_ and node.targets[0].id not in s_:
                            s_.add(node.targets[0].id)
                            changed = True
        sinks = []
        for node in walk_no_nested(f.node):
            if isinstance(node, ast.Return) and node.value is not None:
                sinks.append(("returned candidate list", node, node.value))
            if isinstance(node, ast.For) and any(isinstance(c, ast.Call) and isinstance(c.func, ast.Attribute) and c.func.attr in labelmap_api(prog)["add"] for c in ast.walk(node)):
                sinks.append(("iterable of the greedy assignment loop", node, node.iter))
        for d, stores in keyed.items():
            for what, node, expr in sinks:
                used = {x.id for x in ast.walk(expr) if isinstance(x, ast.Name)}
                if used & derived[d]:
                    n += 1
                    ctx.violated("R03.6", f, stores[0][0], f"{f.qual}:{d}", f"candidate pairs are reduced to one per key of '{d}' (keyed by {norm(stores[0][1])}) and that reduced collection is the {what}: a pair that would be matched after its partner's better candidate is taken is never considered", {"store": norm(stores[0][0])[:100], "sink": norm(expr)[:80]})
    if n == 0:
        ctx.ok("R03.6", None, None, "matching:no-candidate-pruning", "no per-label reduction of the candidate pairs feeds the candidate list or the greedy loop", None, nontrivial=False)


def _guarded(ctx, name, fn):
    try:
        return fn(ctx)
    except (Undecided, AnchorMissing) as e:
        ctx.undecided(name, None, None, f"{name}:analysis", f"{type(e).__name__}: {e}")
        return 0


def check_candidate_call(ctx: Ctx):
    """R03.7: every matcher hands the candidate function the pair's own prediction array,
    reference array and reference labels (uncrossed) and its configured matching metric.
    The matcher is run abstractly on a symbolic pair up to the call (wrappers are inlined)."""
    from fractions import Fraction

    from .resultrun import ResultInterp

    prog = ctx.prog
    target = prog.func("_functionals:_calc_matching_metric_of_overlapping_labels")
    base = prog.cls("instance_matcher:InstanceMatchingAlgorithm")
    pcls = prog.cls("utils.processing_pair:UnmatchedInstancePair")
    n = 0
    for cls in sorted(base.all_subclasses(), key=lambda c: c.qual):
        f = cls.methods.get("_match_instances")
        if f is None:
            continue
        # only matchers that use the candidate function at all
        mv, me = make_metric_objs(prog, False)
        pair = Obj(pcls, {"_prediction_arr": Sym("PRED_ARR"), "_reference_arr": Sym("REF_ARR"), "_ref_labels": Sym("REF_LABELS"), "_pred_labels": Sym("PRED_LABELS"), "n_dim": 3})
        matcher = Obj(cls, {"_matching_metric": me, "_matching_threshold": Fraction(1, 2), "_allow_many_to_one": False})
        calls = []

        class CallInterp(ResultInterp):
            def external_call(self, name, args, kwargs, node):
                if name == target.qual:
                    calls.append((list(args), dict(kwargs), node))
                    return []
                if name in ("tuple", "list", "numpy.asarray", "numpy.array", "sorted") and len(args) == 1 and isinstance(args[0], Sym) and args[0].name in ("REF_LABELS", "PRED_LABELS") and not kwargs:
                    return args[0]  # the same labels as another kind of sequence
                return super().external_call(name, args, kwargs, node)

        params = [p.name for p in f.call_params]
        args = {params[0]: pair} if params else {}
        it = CallInterp(prog, f, {**args, f.self_name: matcher}, metrics=[me])
        it.root.no_inline = {target.qual}
        try:
            out = it.run()
        except Undecided as e:
            if not calls:
                # a matcher that never reaches the candidate function through its own calls does not use it at all
                reach, work = {f.qual}, [f]
                for _ in range(3):
                    nxt = []
                    for g in work:
                        for c in prog.calls_in(g):
                            for h in prog.resolve_call(g, c):
                                if isinstance(h, Func) and h.qual not in reach:
                                    reach.add(h.qual)
                                    nxt.append(h)
                    work = nxt
                if target.qual not in reach:
                    continue
                ctx.undecided("R03.7", f, f.node, f"{f.qual}:candidate-call", f"matcher not evaluable up to the candidate call: {e}")
                continue
            out = None
        if not calls:
            continue  # a matcher that does not use the overlap candidates
        for cargs, ckw, node in calls:
            n += 1
            bound = {}
            tp = [p.name for p in target.params]
            for i, a in enumerate(cargs):
                if i < len(tp):
                    bound[tp[i]] = a
            bound.update(ckw)
            want = {}
            for pn in tp:
                lp = pn.lower()
                if lp.startswith("pred"):
                    want[pn] = Sym("PRED_ARR")
                elif lp.startswith("ref") and "label" in lp:
                    want[pn] = Sym("REF_LABELS")
                elif lp.startswith("ref"):
                    want[pn] = Sym("REF_ARR")
                elif "metric" in lp:
                    want[pn] = me
            bad = {pn: repr(bound.get(pn)) for pn, w in want.items() if not (bound.get(pn) is w or bound.get(pn) == w)}
            ctx.decide("R03.7", f, node, f"{f.qual}->candidates", "the candidate function receives the pair's prediction array, reference array, reference labels and the configured metric, each in its own parameter", not bad, {"mismatched": bad, "want": {k: repr(v) for k, v in want.items()}})
    if n < 2:
        ctx.undecided("R03.7.floor", None, None, "floor:R03.7", f"{n} candidate calls observed from matchers, confirmed floor is 2")


def _run_rule(ctx, name, fn):
    """a sub-rule that cannot be evaluated is recorded as undecided; the remaining rules still run"""
    try:
        return fn(ctx)
    except (Undecided, AnchorMissing) as e:
        ctx.undecided(name, None, None, f"{name}:analysis", f"{type(e).__name__}: {e}")
        return 0


def check(ctx: Ctx):
    _run_rule(ctx, "check_no_pruning", check_no_pruning)
    _guarded(ctx, "R03.7", check_candidate_call)
    _guarded(ctx, "R03.1", check_codec)
    _guarded(ctx, "R03.2", check_candidates)
    _guarded(ctx, "R03.3", check_beats)
    _guarded(ctx, "R03.9", check_metric_twins)
    _guarded(ctx, "R03.8", check_effective_threshold)
    _guarded(ctx, "R03.8", check_ctor_spellings)
    n = _guarded(ctx, "R03.4", check_naive)
    # completeness of candidate discovery also needs the pair codes not to wrap (R09.1)
    from . import c09

    _guarded(ctx, "R09.1", c09.check_codec_width)
    _guarded(ctx, "R09.1", c09.check_codec_width_relational)
    if n < 1:
        ctx.undecided("R03.4.floor", None, None, "floor:R03.4", f"found {n} add_labelmap_entry sites in the threshold matcher, expected >= 1")
    # results of later evaluations (another group, a flipped copy, the exchanged pair, a second
    # threshold) are only meaningful if no step writes into the caller's arrays (R15.8)
    from . import c15 as _c15
    from . import c03 as _c03

    _c03._guarded(ctx, "R15.8", _c15.check_param_aliasing)
    _c03._guarded(ctx, "R15.7", _c15.check_globals)  # no memo between calls: scores depend on the arrays handed in only
    # the assignment is delivered as relabelled maps: each matched prediction carries its reference's
    # label, every other prediction a label no reference has, in a dtype that holds them (R04.2/R04.4)
    from . import c04 as _c04

    _run_rule(ctx, "check_chained_replacement", _c04.check_chained_replacement)
    _c03._guarded(ctx, "R04.2", _c04.check_relabel)


# ----------------------------------------------------------------------------------------
# variants
# ----------------------------------------------------------------------------------------

_F = "panoptica/_functionals.py"
_M = "panoptica/instance_matcher.py"
_X = "panoptica/metrics/metrics.py"

_GUARD = """            if labelmap.contains_pred(pred_label) or (
                labelmap.contains_ref(ref_label) and not self._allow_many_to_one
            ):
                continue  # -> doesnt make speed difference"""

VARIANTS = [
    # R03.1
    Variant("C03-m-codec-k0", "R03.1", "mutant", [(_F, "max_ref = int(max(ref_labels)) + 1", "max_ref = int(max(ref_labels))")], control=True),
    Variant("C03-m-codec-swap", "R03.1", "mutant", [(_F, "(int(i % (max_ref)), int(i // (max_ref)))", "(int(i // (max_ref)), int(i % (max_ref)))")]),
    Variant("C03-m-codec-nomask", "R03.1", "mutant", [(_F, "    overlap_arr[reference_arr == 0] = 0\n", "")]),
    Variant("C03-m-codec-ge1", "R03.1", "mutant", [(_F, "        if i > max_ref\n", "        if i >= 1\n")]),
    Variant("C03-t-codec-ge", "R03.1", "twin", [(_F, "        if i > max_ref\n", "        if i >= max_ref\n")]),
    Variant("C03-t-codec-k2", "R03.1", "twin", [(_F, "max_ref = int(max(ref_labels)) + 1", "max_ref = int(max(ref_labels)) + 2")]),
    # R03.2
    Variant("C03-m-sort-dir", "R03.2", "mutant", [(_F, "reverse=not matching_metric.decreasing", "reverse=matching_metric.decreasing")], control=True),
    Variant("C03-m-sort-key", "R03.2", "mutant", [(_F, "key=lambda x: x[0]", "key=lambda x: x[1]")]),
    Variant("C03-m-sort-noreverse", "R03.2", "mutant", [(_F, "mm_pairs, key=lambda x: x[0], reverse=not matching_metric.decreasing", "mm_pairs, key=lambda x: x[0]")]),
    Variant("C03-m-sort-conditional", "R03.2", "mutant", [(_F, "    mm_pairs = sorted(\n        mm_pairs, key=lambda x: x[0], reverse=not matching_metric.decreasing\n    )\n", "    if matching_metric.decreasing:\n        mm_pairs = sorted(mm_pairs, key=lambda x: x[0], reverse=False)\n")]),
    Variant("C03-m-pairs-crossed", "R03.2", "mutant", [(_F, "(reference_arr, prediction_arr, i[0], i[1])", "(reference_arr, prediction_arr, i[1], i[0])")]),
    Variant("C03-m-pairs-order", "R03.", "mutant", [(_F, "(i, (instance_pairs[idx][2], instance_pairs[idx][3]))", "(i, (instance_pairs[idx][3], instance_pairs[idx][2]))")]),
    Variant("C03-t-sort-increasing", "R03.2", "twin", [(_F, "reverse=not matching_metric.decreasing", "reverse=matching_metric.increasing")]),
    Variant("C03-t-sort-inplace", "R03.2", "twin", [(_F, "    mm_pairs = sorted(\n        mm_pairs, key=lambda x: x[0], reverse=not matching_metric.decreasing\n    )\n", "    mm_pairs.sort(key=lambda x: x[0], reverse=not matching_metric.decreasing)\n")]),
    Variant("C03-t-sort-len-guard", "R03.2", "twin", [(_F, "    mm_pairs = sorted(\n        mm_pairs, key=lambda x: x[0], reverse=not matching_metric.decreasing\n    )\n", "    if len(mm_pairs) > 1:\n        mm_pairs = sorted(mm_pairs, key=lambda x: x[0], reverse=not matching_metric.decreasing)\n")]),
    # R03.3
    Variant("C03-m-beats-gt", "R03.3", "mutant", [(_X, "        return (self.increasing and matching_score >= matching_threshold) or (\n            self.decreasing and matching_score <= matching_threshold\n        )\n\n    @property\n    def name(self):", "        return (self.increasing and matching_score > matching_threshold) or (\n            self.decreasing and matching_score <= matching_threshold\n        )\n\n    @property\n    def name(self):")], control=True),
    Variant("C03-m-beats-lt-value", "R03.3", "mutant", [(_X, "        return (self.increasing and matching_score >= matching_threshold) or (\n            self.decreasing and matching_score <= matching_threshold\n        )\n\n\nclass DirectValueMeta", "        return (self.increasing and matching_score >= matching_threshold) or (\n            self.decreasing and matching_score < matching_threshold\n        )\n\n\nclass DirectValueMeta")]),
    Variant("C03-m-beats-xor", "R03.3", "mutant", [(_X, "        return (self.increasing and matching_score >= matching_threshold) or (\n            self.decreasing and matching_score <= matching_threshold\n        )\n\n\nclass DirectValueMeta", "        return (matching_score >= matching_threshold) != self.decreasing\n\n\nclass DirectValueMeta")]),
    Variant("C03-t-beats-not-lt", "R03.3", "twin", [(_X, "        return (self.increasing and matching_score >= matching_threshold) or (\n            self.decreasing and matching_score <= matching_threshold\n        )\n\n\nclass DirectValueMeta", "        if self.increasing:\n            return not (matching_score < matching_threshold)\n        return not (matching_score > matching_threshold)\n\n\nclass DirectValueMeta")]),
    Variant("C03-t-beats-delegate", "R03.3", "twin", [(_X, "        return (self.increasing and matching_score >= matching_threshold) or (\n            self.decreasing and matching_score <= matching_threshold\n        )\n\n    @property\n    def name(self):", "        return self.value.score_beats_threshold(matching_score, matching_threshold)\n\n    @property\n    def name(self):")]),
    # R03.4
    Variant("C03-m-guard-d12", "R03.4b", "mutant", [(_M, _GUARD, "            if (\n                labelmap.contains_or(pred_label, ref_label)\n                and not self._allow_many_to_one\n            ):\n                continue")], control=True, note="the defect D12 as found on the original tree"),
    Variant("C03-m-guard-and", "R03.4", "mutant", [(_M, _GUARD, "            if labelmap.contains_and(pred_label, ref_label):\n                continue")]),
    Variant("C03-m-guard-predonly", "R03.4c", "mutant", [(_M, _GUARD, "            if labelmap.contains_pred(pred_label):\n                continue")]),
    Variant("C03-m-no-threshold", "R03.4a", "mutant", [(_M, "            if self._matching_metric.score_beats_threshold(\n                matching_score, self._matching_threshold\n            ):\n                # Match found, increment true positive count and collect IoU and Dice values\n                labelmap.add_labelmap_entry(pred_label, ref_label)\n                # map label ref_idx to pred_idx\n        return labelmap\n\n    @classmethod\n    def _yaml_repr(cls, node) -> dict:\n        return {\n            \"matching_metric\": node._matching_metric,\n            \"matching_threshold\": node._matching_threshold,\n            \"allow_many_to_one\"", "            if True:\n                labelmap.add_labelmap_entry(pred_label, ref_label)\n        return labelmap\n\n    @classmethod\n    def _yaml_repr(cls, node) -> dict:\n        return {\n            \"matching_metric\": node._matching_metric,\n            \"matching_threshold\": node._matching_threshold,\n            \"allow_many_to_one\"")]),
    Variant("C03-m-guard-toostrong", "R03.4e", "mutant", [(_M, _GUARD, "            if labelmap.contains_or(pred_label, ref_label):\n                continue")], note="many-to-one option silently ignored"),
    Variant("C03-m-break", "R03.5", "mutant", [(_M, "                continue  # -> doesnt make speed difference", "                break")]),
    Variant("C03-t-guard-explicit", "R03.4", "twin", [(_M, _GUARD, "            taken_pred = pred_label in labelmap.labelmap\n            taken_ref = ref_label in labelmap.labelmap.values()\n            if taken_pred or (taken_ref and not self._allow_many_to_one):\n                continue")]),
    Variant("C03-t-guard-threshold-first", "R03.4", "twin", [(_M, _GUARD + "\n            # TODO always go in here, but add the matching score to the pair (so evaluation over multiple thresholds becomes easy)\n            if self._matching_metric.score_beats_threshold(\n                matching_score, self._matching_threshold\n            ):", "            if not self._matching_metric.score_beats_threshold(\n                matching_score, self._matching_threshold\n            ):\n                continue\n            if not (labelmap.contains_pred(pred_label) or (\n                labelmap.contains_ref(ref_label) and not self._allow_many_to_one\n            )):")]),
    Variant("C03-t-tracking-sets", "R03.4", "twin", [(_M, _GUARD, "            if pred_label in done_pred or (ref_label in done_ref and not self._allow_many_to_one):\n                continue"), (_M, "        labelmap = InstanceLabelMap()\n\n        pred_arr, ref_arr = (\n            unmatched_instance_pair.prediction_arr,\n            unmatched_instance_pair.reference_arr,\n        )\n        mm_pairs = _calc_matching_metric_of_overlapping_labels(\n            pred_arr, ref_arr, ref_labels, matching_metric=self._matching_metric\n        )", "        labelmap = InstanceLabelMap()\n        done_pred: set[int] = set()\n        done_ref: set[int] = set()\n\n        pred_arr, ref_arr = (\n            unmatched_instance_pair.prediction_arr,\n            unmatched_instance_pair.reference_arr,\n        )\n        mm_pairs = _calc_matching_metric_of_overlapping_labels(\n            pred_arr, ref_arr, ref_labels, matching_metric=self._matching_metric\n        )"), (_M, "                # Match found, increment true positive count and collect IoU and Dice values\n                labelmap.add_labelmap_entry(pred_label, ref_label)\n                # map label ref_idx to pred_idx\n        return labelmap\n\n    @classmethod\n    def _yaml_repr(cls, node) -> dict:\n        return {\n            \"matching_metric\": node._matching_metric,\n            \"matching_threshold\": node._matching_threshold,\n            \"allow_many_to_one\"", "                labelmap.add_labelmap_entry(pred_label, ref_label)\n                done_pred.add(pred_label)\n                done_ref.add(ref_label)\n        return labelmap\n\n    @classmethod\n    def _yaml_repr(cls, node) -> dict:\n        return {\n            \"matching_metric\": node._matching_metric,\n            \"matching_threshold\": node._matching_threshold,\n            \"allow_many_to_one\"")]),
    Variant("C03-m-tracking-early", "R03.4", "mutant", [(_M, _GUARD, "            if pred_label in seen_pred:\n                continue\n            seen_pred.add(pred_label)\n            if labelmap.contains_ref(ref_label) and not self._allow_many_to_one:\n                continue"), (_M, "        labelmap = InstanceLabelMap()\n\n        pred_arr, ref_arr = (\n            unmatched_instance_pair.prediction_arr,\n            unmatched_instance_pair.reference_arr,\n        )\n        mm_pairs = _calc_matching_metric_of_overlapping_labels(\n            pred_arr, ref_arr, ref_labels, matching_metric=self._matching_metric\n        )", "        labelmap = InstanceLabelMap()\n        seen_pred: set[int] = set()\n\n        pred_arr, ref_arr = (\n            unmatched_instance_pair.prediction_arr,\n            unmatched_instance_pair.reference_arr,\n        )\n        mm_pairs = _calc_matching_metric_of_overlapping_labels(\n            pred_arr, ref_arr, ref_labels, matching_metric=self._matching_metric\n        )")]),
    Variant("C03-t-guard-contains-or", "R03.4", "twin", [(_M, _GUARD, "            if labelmap.contains_pred(pred_label) or (\n                labelmap.contains_or(pred_label, ref_label) and not self._allow_many_to_one\n            ):\n                continue")]),
    # R03.7
    Variant("C03-m-candidates-arrays-swapped", "R03.7", "mutant", [(_M, "            pred_arr, ref_arr, ref_labels, matching_metric=self._matching_metric", "            ref_arr, pred_arr, ref_labels, matching_metric=self._matching_metric")], control=True),
    Variant("C03-m-candidates-pred-labels", "R03.7", "mutant", [(_M, "        ref_labels = unmatched_instance_pair.ref_labels\n\n        # Initialize variables for True Positives (tp) and False Positives (fp)\n        labelmap = InstanceLabelMap()\n\n        pred_arr, ref_arr = (", "        ref_labels = unmatched_instance_pair.pred_labels\n\n        # Initialize variables for True Positives (tp) and False Positives (fp)\n        labelmap = InstanceLabelMap()\n\n        pred_arr, ref_arr = (")]),
    Variant("C03-m-merge-candidates-swapped", "R03.7", "mutant", [(_M, "            prediction_arr=pred_arr,\n            reference_arr=ref_arr,\n            ref_labels=ref_labels,\n            matching_metric=self._matching_metric,", "            prediction_arr=ref_arr,\n            reference_arr=pred_arr,\n            ref_labels=ref_labels,\n            matching_metric=self._matching_metric,")]),
    Variant("C03-t-candidates-keywords", "R03.7", "twin", [(_M, "            pred_arr, ref_arr, ref_labels, matching_metric=self._matching_metric", "            reference_arr=ref_arr, prediction_arr=pred_arr, ref_labels=ref_labels, matching_metric=self._matching_metric")]),
]
