"""Helpers shared by the rule modules."""

from __future__ import annotations

import ast
from typing import Callable, Optional

from ..absval import Interp, Obj, Sym, Unknown
from ..flow import Formula, inline_expr_function, substitute
from ..model import AnchorMissing, Class, Func, Program, Undecided, bind_args, dotted, norm, walk_no_nested
from ..report import Ctx


# ----------------------------------------------------------------------------------------
# small AST utilities
# ----------------------------------------------------------------------------------------


def assignments_to(f: Func, name: str) -> list[ast.AST]:
    """Statements (Assign/AnnAssign/AugAssign/For/With/comprehension) binding local `name`."""
    out = []
    for n in walk_no_nested(f.node):
        if isinstance(n, ast.Assign):
            for t in n.targets:
                for x in ast.walk(t):
                    if isinstance(x, ast.Name) and x.id == name:
                        out.append(n)
        elif isinstance(n, (ast.AnnAssign, ast.AugAssign)):
            if isinstance(n.target, ast.Name) and n.target.id == name and (not isinstance(n, ast.AnnAssign) or n.value is not None):
                out.append(n)
        elif isinstance(n, ast.For):
            for x in ast.walk(n.target):
                if isinstance(x, ast.Name) and x.id == name:
                    out.append(n)
        elif isinstance(n, ast.With):
            for it in n.items:
                if it.optional_vars is not None:
                    for x in ast.walk(it.optional_vars):
                        if isinstance(x, ast.Name) and x.id == name:
                            out.append(n)
    return out


def resolve_alias(f: Func, e: ast.expr, depth: int = 0) -> ast.expr:
    """Follow single-assignment local aliases  x = <Name|Attribute>  (not parameters)."""
    if depth > 5 or not isinstance(e, ast.Name):
        return e
    if e.id in {p.name for p in f.params}:
        return e
    asg = assignments_to(f, e.id)
    if len(asg) == 1 and isinstance(asg[0], ast.Assign) and len(asg[0].targets) == 1 and isinstance(asg[0].targets[0], ast.Name):
        v = asg[0].value
        if isinstance(v, (ast.Name, ast.Attribute)):
            return resolve_alias(f, v, depth + 1)
        if isinstance(v, ast.Subscript) and isinstance(v.value, ast.Name) and isinstance(v.slice, (ast.Name, ast.Constant)):
            return v
    return e


def single_def(f: Func, name: str) -> Optional[ast.expr]:
    """The value expression of the only plain assignment to local `name` (else None)."""
    asg = assignments_to(f, name)
    if len(asg) == 1 and isinstance(asg[0], (ast.Assign, ast.AnnAssign)):
        a = asg[0]
        tgt = a.targets[0] if isinstance(a, ast.Assign) else a.target
        if isinstance(tgt, ast.Name):
            return a.value
    return None


def init_param_of_attr(cls: Class, attr: str) -> Optional[str]:
    """Name of the __init__ parameter that is stored (unchanged) into self.<attr>."""
    for k in cls.mro():
        init = k.methods.get("__init__")
        if init is None:
            continue
        sn = init.self_name
        pnames = {p.name for p in init.params}
        for st in ast.walk(init.node):
            if isinstance(st, ast.Assign):
                for t in st.targets:
                    if isinstance(t, ast.Attribute) and isinstance(t.value, ast.Name) and t.value.id == sn and k.mangle(t.attr) == k.mangle(attr) or (
                        isinstance(t, ast.Attribute) and isinstance(t.value, ast.Name) and t.value.id == sn and t.attr == attr
                    ):
                        if isinstance(st.value, ast.Name) and st.value.id in pnames:
                            return st.value.id
                        # stored through a normalising call / conditional that mentions the parameter of
                        # the same name (self._x = f(x) / x if x is not None else d): still "the configured x"
                        # - that the stored value IS the given one for every given number is decided
                        # separately on values (R03.8)
                        base = attr.lstrip("_")
                        used = {n.id for n in ast.walk(st.value) if isinstance(n, ast.Name)} & pnames
                        same = [q for q in used if q.lstrip("_") == base]
                        if same and not isinstance(st.value, ast.Name):
                            return same[0]
    return None


def attr_writers(prog: Program, cls: Class, attr: str) -> list[tuple[Func, ast.AST]]:
    """All (method, statement) pairs in the class hierarchy that store self.<attr>."""
    out = []
    mang = cls.mangle(attr)
    for k in [cls] + cls.all_subclasses() + cls.mro()[1:]:
        for m in k.methods.values():
            sn = m.self_name
            if not sn:
                continue
            for n in walk_no_nested(m.node):
                tgts = []
                if isinstance(n, ast.Assign):
                    tgts = n.targets
                elif isinstance(n, (ast.AugAssign, ast.AnnAssign)):
                    tgts = [n.target]
                for t in tgts:
                    for x in ast.walk(t):
                        if isinstance(x, ast.Attribute) and isinstance(x.value, ast.Name) and x.value.id == sn and (x.attr == attr or k.mangle(x.attr) == mang):
                            if (m, n) not in out:
                                out.append((m, n))
    return out


def find_calls(prog: Program, f: Func, callee_name: str) -> list[ast.Call]:
    out = []
    for c in prog.calls_in(f):
        fn = c.func
        nm = fn.id if isinstance(fn, ast.Name) else fn.attr if isinstance(fn, ast.Attribute) else None
        if nm == callee_name:
            out.append(c)
    return out


def calls_resolving_to(prog: Program, f: Func, target: Func) -> list[ast.Call]:
    out = []
    env = prog.local_types(f)
    for c in prog.calls_in(f):
        if target in prog.resolve_call(f, c, env):
            out.append(c)
    return out


def callers_of(prog: Program, target: Func) -> list[tuple[Func, ast.Call]]:
    out = []
    for f in prog.functions.values():
        nm = target.name
        # cheap pre-filter on the name
        src_has = False
        for c in prog.calls_in(f):
            fn = c.func
            n2 = fn.id if isinstance(fn, ast.Name) else fn.attr if isinstance(fn, ast.Attribute) else None
            if n2 == nm or (target.name == "__init__" and target.cls is not None and n2 == target.cls.name) or (target.name == "__call__"):
                src_has = True
                break
        if not src_has:
            continue
        env = prog.local_types(f)
        for c in prog.calls_in(f):
            if target in prog.resolve_call(f, c, env):
                out.append((f, c))
    return out


# ----------------------------------------------------------------------------------------
# the label map's interface, by what its members do (not by what they are called)
# ----------------------------------------------------------------------------------------


def labelmap_api(prog: Program) -> dict:
    """Roles of InstanceLabelMap's members, read from their bodies:
      dict_attr  the attribute that __init__ binds to an empty dict and an adder stores into
      add        methods storing  self.<dict>[p] = ref
      has_pred   methods returning  x in self.<dict>          (also .keys())
      has_ref    methods returning  x in self.<dict>.values()
      preds_of   methods returning  [k for k, v in self.<dict>.items() if v == x]
      dict_names attribute names that read as the dict itself (dict_attr + properties returning it)
    A member that only forwards to one of these with its own parameters (deprecated spellings) has
    the same role."""
    api = getattr(prog, "_labelmap_api", None)
    if api is not None:
        return api
    cls = prog.cls("utils.instancelabelmap:InstanceLabelMap")
    init = cls.methods.get("__init__")
    cands = []
    if init is not None:
        for st in walk_no_nested(init.node):
            tg = st.targets if isinstance(st, ast.Assign) else [st.target] if isinstance(st, ast.AnnAssign) and st.value is not None else []
            val = getattr(st, "value", None)
            isdict = isinstance(val, ast.Dict) and not val.keys or (isinstance(val, ast.Call) and dotted(val.func) == "dict" and not val.args and not val.keywords)
            for t in tg:
                if isdict and isinstance(t, ast.Attribute) and isinstance(t.value, ast.Name) and t.value.id == init.self_name:
                    cands.append(t.attr)
    roles = {"add": set(), "has_pred": set(), "has_ref": set(), "preds_of": set()}
    dict_attr = None

    def self_dict(e, m, attrs):
        return isinstance(e, ast.Attribute) and isinstance(e.value, ast.Name) and e.value.id == m.self_name and e.attr in attrs

    for m in cls.methods.values():
        if not m.self_name:
            continue
        for st in walk_no_nested(m.node):
            if isinstance(st, ast.Assign):
                for t in st.targets:
                    if isinstance(t, ast.Subscript) and self_dict(t.value, m, cands):
                        roles["add"].add(m.name)
                        dict_attr = t.value.attr
    if dict_attr is None:
        raise AnchorMissing(f"{cls.qual}: no method stores into a dict created by __init__ (candidates {cands})")
    dict_names = {dict_attr}
    for m in cls.methods.values():
        rets = [st for st in walk_no_nested(m.node) if isinstance(st, ast.Return) and st.value is not None]
        if m.is_property and len(rets) == 1 and self_dict(rets[0].value, m, {dict_attr}):
            dict_names.add(m.name)
    for m in cls.methods.values():
        if not m.self_name or m.is_property:
            continue
        rets = [st for st in walk_no_nested(m.node) if isinstance(st, ast.Return) and st.value is not None]
        ps = [p.name for p in m.call_params]
        if len(rets) != 1 or len(ps) != 1:
            continue
        v = rets[0].value
        if isinstance(v, ast.Compare) and len(v.ops) == 1 and isinstance(v.ops[0], ast.In) and isinstance(v.left, ast.Name) and v.left.id == ps[0]:
            r = v.comparators[0]
            if self_dict(r, m, dict_names) or (isinstance(r, ast.Call) and isinstance(r.func, ast.Attribute) and r.func.attr == "keys" and self_dict(r.func.value, m, dict_names)):
                roles["has_pred"].add(m.name)
            elif isinstance(r, ast.Call) and isinstance(r.func, ast.Attribute) and r.func.attr == "values" and self_dict(r.func.value, m, dict_names):
                roles["has_ref"].add(m.name)
        if isinstance(v, ast.ListComp) and len(v.generators) == 1:
            g = v.generators[0]
            it = g.iter
            if isinstance(it, ast.Call) and isinstance(it.func, ast.Attribute) and it.func.attr == "items" and self_dict(it.func.value, m, dict_names) and isinstance(g.target, ast.Tuple) and len(g.target.elts) == 2 and all(isinstance(x, ast.Name) for x in g.target.elts):
                k, val = g.target.elts[0].id, g.target.elts[1].id
                if isinstance(v.elt, ast.Name) and v.elt.id == k and len(g.ifs) == 1:
                    c = g.ifs[0]
                    if isinstance(c, ast.Compare) and len(c.ops) == 1 and isinstance(c.ops[0], ast.Eq) and {norm(c.left), norm(c.comparators[0])} == {val, ps[0]}:
                        roles["preds_of"].add(m.name)
    # forwarding members: `return self.<member>(<own parameters>)` after statements without value effect
    changed = True
    while changed:
        changed = False
        for m in cls.methods.values():
            if not m.self_name or m.is_property or any(m.name in r for r in roles.values()):
                continue
            body = [st for st in m.node.body if not (isinstance(st, ast.Expr) and isinstance(st.value, (ast.Constant, ast.Call)))]
            if len(body) != 1 or not isinstance(body[0], (ast.Return, ast.Expr)):
                continue
            c = body[0].value
            if not (isinstance(c, ast.Call) and isinstance(c.func, ast.Attribute) and isinstance(c.func.value, ast.Name) and c.func.value.id == m.self_name):
                continue
            ps = [p.name for p in m.call_params]
            passed = [a.id for a in c.args if isinstance(a, ast.Name)] + [kw.value.id for kw in c.keywords if isinstance(kw.value, ast.Name) and kw.arg == kw.value.id]
            if passed != ps or len(passed) != len(c.args) + len(c.keywords):
                continue
            for rname, names in roles.items():
                if c.func.attr in names:
                    names.add(m.name)
                    changed = True
    api = {"cls": cls, "dict_attr": dict_attr, "dict_names": dict_names, **roles}
    prog._labelmap_api = api
    return api


# ----------------------------------------------------------------------------------------
# metric objects for abstract evaluation
# ----------------------------------------------------------------------------------------


def metric_value_class(prog: Program) -> Class:
    return prog.cls("metrics.metrics:_Metric")


def metric_enum_class(prog: Program) -> Class:
    return prog.cls("metrics.metrics:Metric")


def _metric_ctor_params(prog: Program) -> list[str]:
    """Names the positional arguments of `_Metric(...)` bind to: the explicit constructor's parameters,
    else the dataclass fields in declaration order."""
    mv = metric_value_class(prog)
    init = mv.lookup("__init__")
    if init is not None:
        return [p.name for p in init.call_params if p.kind in ("pos", "kwonly")]
    return [st.target.id for st in mv.node.body if isinstance(st, ast.AnnAssign) and isinstance(st.target, ast.Name)]


def _bound_member_args(prog: Program, call: ast.Call) -> dict[str, ast.expr]:
    names = _metric_ctor_params(prog)
    d = {}
    for i, a in enumerate(call.args):
        if i < len(names):
            d[names[i]] = a
    for kw in call.keywords:
        if kw.arg:
            d[kw.arg] = kw.value
    return d


def metric_layout(prog: Program) -> dict:
    """How a `_Metric` is built, read from the registry `X = _Metric(...)` itself rather than from
    field names: which constructor argument is the direction flag (the one that is a bool constant in
    every member), the kernel (resolves to a function) and the two names (string constants, in order);
    and what the flag means, decided by running score_beats_threshold(0, 1) / (1, 0) on an object built
    with the flag set: True/False = 'lower is better'."""
    lay = getattr(prog, "_metric_layout", None)
    if lay is not None:
        return lay
    me = metric_enum_class(prog)
    mv = metric_value_class(prog)
    members = {}
    for member, val in me.class_assigns().items():
        if isinstance(val, ast.Call) and prog.resolve_class_expr(me.module, val.func) is mv:
            members[member] = _bound_member_args(prog, val)
    if not members:
        raise AnchorMissing("Metric registry is empty")
    common_keys = set.intersection(*[set(d) for d in members.values()])
    names = [n for n in _metric_ctor_params(prog) if n in common_keys] + sorted(common_keys - set(_metric_ctor_params(prog)))
    dir_key = [k for k in names if all(isinstance(d[k], ast.Constant) and isinstance(d[k].value, bool) for d in members.values())]
    str_keys = [k for k in names if all(isinstance(d[k], ast.Constant) and isinstance(d[k].value, str) for d in members.values())]
    ker_key = [k for k in names if k not in dir_key and k not in str_keys and all(isinstance(prog.resolve_dotted(me.module, d[k]), Func) for d in members.values())]
    if len(dir_key) != 1 or len(ker_key) != 1 or len(str_keys) < 1:
        raise AnchorMissing(f"Metric registry: direction {dir_key}, kernel {ker_key}, names {str_keys} not identifiable in _Metric(...) calls")
    lay = {"dir": dir_key[0], "kernel": ker_key[0], "name": str_keys[0], "long_name": str_keys[1] if len(str_keys) > 1 else None, "members": members}
    prog._metric_layout = lay
    lay["dir_means_lower"] = True
    probe = _build_metric_value(prog, lay, True, "M", Sym("kernel:M"))
    lay["dir_means_lower"] = metric_direction(prog, probe)
    return lay


def _build_metric_value(prog: Program, lay: dict, flag: bool, name: str, kernel, long_name=None) -> Obj:
    from ..absval import Interp

    mv = metric_value_class(prog)
    vals = {lay["dir"]: flag, lay["kernel"]: kernel, lay["name"]: name}
    if lay["long_name"]:
        vals[lay["long_name"]] = long_name or name
    obj = Obj(mv, {})
    init = mv.lookup("__init__")
    if init is not None:
        args = {p.name: vals[p.name] for p in init.call_params if p.name in vals}
        out = Interp(prog, init, args, self_obj=obj).run()
        if out.kind == "raise":
            raise AnchorMissing(f"{init.qual} raises on the registry's own argument pattern: {out.value!r}")
    else:
        for k, v in vals.items():
            obj.attrs[k] = v
    return obj


def metric_direction(prog: Program, m: Obj) -> bool:
    """True if `m` (a Metric member or a _Metric) is a 'lower is better' metric: decided by its
    score_beats_threshold on (0, 1) and (1, 0), not by a field name."""
    from ..absval import Interp

    mvo = m.attrs.get("value", m) if m.cls is metric_enum_class(prog) else m
    cache = prog.__dict__.setdefault("_metric_dir_cache", {})
    hit = cache.get(id(mvo))
    if hit is not None and hit[0] is mvo:
        return hit[1]
    sbt = mvo.cls.lookup("score_beats_threshold")
    if sbt is None or len(sbt.call_params) < 2:
        raise AnchorMissing(f"{mvo.cls.qual}.score_beats_threshold(score, threshold)")
    ps = [p.name for p in sbt.call_params][:2]
    got = []
    for sc, th in ((0.0, 1.0), (1.0, 0.0)):
        out = Interp(prog, sbt, {ps[0]: sc, ps[1]: th}, self_obj=mvo).run()
        got.append(out.value if out.kind == "return" and isinstance(out.value, bool) else None)
    if got == [True, False]:
        r = True
    elif got == [False, True]:
        r = False
    else:
        raise Undecided(f"{sbt.qual}: direction of the metric not evaluable (score 0 vs threshold 1: {got[0]!r}, 1 vs 0: {got[1]!r})")
    cache[id(mvo)] = (mvo, r)
    return r


def metric_flag_attr(prog: Program, attr: str):
    """What `<metric>.<attr>` says about the direction, by reading it on a 'lower is better' and on a
    'higher is better' metric object: 'lower' (true exactly on the former), 'higher', a constant truth
    value (e.g. a method object used as a flag), or None when it is not a truth value at all."""
    cache = prog.__dict__.setdefault("_metric_flag_attr", {})
    if attr in cache:
        return cache[attr]
    from ..absval import BoundMethod, Interp

    host = metric_value_class(prog).lookup("score_beats_threshold")
    res = None
    for which in (1, 0):  # the enum member first, the value object second
        got = []
        for dec in (True, False):
            objs = make_metric_objs(prog, dec)
            try:
                v = Interp(prog, host, {}, self_obj=objs[0]).get_attr(objs[which], attr, host.node)
            except (Undecided, AnchorMissing, KeyError, AttributeError):
                v = None
            got.append(v)
        if all(isinstance(v, bool) for v in got):
            res = "lower" if got == [True, False] else "higher" if got == [False, True] else got[0] if got[0] == got[1] else None
            break
        if all(isinstance(v, (BoundMethod, Func)) for v in got):
            res = True  # a method object read as a flag is always true
            break
    cache[attr] = res
    return res


def make_metric_objs(prog: Program, decreasing: bool, name: str = "M", kernel=None, long_name=None):
    """(_Metric object, Metric enum member object) with the given direction (True = lower is better)."""
    lay = metric_layout(prog)
    flag = decreasing if lay["dir_means_lower"] else not decreasing
    mv = _build_metric_value(prog, lay, flag, name, kernel if kernel is not None else Sym("kernel:" + name), long_name)
    me = Obj(metric_enum_class(prog), {"value": mv, "_value_": mv, "_name_": name})
    return mv, me


def metric_registry(prog: Program) -> dict[str, dict]:
    """Metric enum members -> {'name', 'long_name', 'decreasing' (True = lower is better), 'kernel' (Func|None), 'node'}
    read from the class body `X = _Metric(...)` by the layout of those calls (metric_layout)."""
    me = metric_enum_class(prog)
    mv = metric_value_class(prog)
    lay = metric_layout(prog)
    out = {}
    for member, val in me.class_assigns().items():
        if not (isinstance(val, ast.Call) and prog.resolve_class_expr(me.module, val.func) is mv):
            continue
        d = _bound_member_args(prog, val)
        rec = {"member": member, "node": val}
        for k, slot in (("name", lay["name"]), ("long_name", lay["long_name"])):
            v = d.get(slot) if slot else None
            rec[k] = v.value if isinstance(v, ast.Constant) else None
        v = d.get(lay["dir"])
        flag = v.value if isinstance(v, ast.Constant) and isinstance(v.value, bool) else None
        rec["decreasing"] = None if flag is None else (flag if lay["dir_means_lower"] else not flag)
        kf = d.get(lay["kernel"])
        r = prog.resolve_dotted(me.module, kf) if kf is not None else None
        rec["kernel"] = r if isinstance(r, Func) else None
        rec["kernel_expr"] = kf
        out[member] = rec
    return out


# ----------------------------------------------------------------------------------------
# leaf interpretation for matcher formulas
# ----------------------------------------------------------------------------------------


class MatcherAtoms:
    """Interprets boolean sub-expressions of a matcher's `_match_instances` as functions of
         cp   : prediction label already a key of the label map
         cr   : reference label already a value of the label map
         dec  : matching metric is a 'lower is better' metric
         cmp:<a>|<b> : ordering of two numeric expressions, in {'<','=','>'}
         cfg:<param>  : boolean constructor option
    Predicate methods and properties of package classes are inlined from their bodies."""

    def __init__(self, ctx: Ctx, f: Func, pred_var: str, ref_var: str, score_var: Optional[str]):
        self.ctx = ctx
        self.prog = ctx.prog
        self.f = f
        self.pred_var = pred_var
        self.ref_var = ref_var
        self.score_var = score_var
        self.env = self.prog.local_types(f)
        self.form = Formula(self.leaf, {"cp": [False, True], "cr": [False, True]})
        self.label_vars = {pred_var, ref_var}
        self.depth = 0
        self.extra_feasible: list = []
        self.metric_cls = (metric_value_class(self.prog), metric_enum_class(self.prog))

    # -- numeric keys ---------------------------------------------------------------------
    def num_key(self, e: ast.expr) -> str:
        e = resolve_alias(self.f, e)
        if isinstance(e, ast.Attribute) and isinstance(e.value, ast.Name) and e.value.id == self.f.self_name and self.f.cls:
            p = init_param_of_attr(self.f.cls, e.attr)
            if p:
                return "cfg:" + p
        return norm(e)

    def ordering(self, a: ast.expr, b: ast.expr):
        ka, kb = self.num_key(a), self.num_key(b)
        flip = False
        if kb < ka:
            ka, kb, flip = kb, ka, True
        key = f"cmp:{ka}|{kb}"
        if key not in self.form.domains:
            self.form.domains[key] = ["<", "=", ">"]
        return key, flip

    def is_metric_expr(self, e: ast.expr) -> bool:
        tys = self.prog.expr_types(self.f, e, self.env)
        return any(t in self.metric_cls for t in tys)

    def metric_key(self, e: ast.expr) -> str:
        # X.value on a Metric member denotes the same metric
        while isinstance(e, ast.Attribute) and e.attr == "value" and self.is_metric_expr(e.value):
            e = e.value
        e = resolve_alias(self.f, e)
        return self.num_key(e)

    # -- the leaf function ------------------------------------------------------------------
    def leaf(self, e: ast.expr):
        form = self.form
        # membership tests on the label map
        if isinstance(e, ast.Compare) and len(e.ops) == 1 and isinstance(e.ops[0], (ast.In, ast.NotIn)):
            neg = isinstance(e.ops[0], ast.NotIn)
            l, r = e.left, e.comparators[0]
            l = resolve_alias(self.f, l)
            r_alias = resolve_alias(self.f, r) if isinstance(r, ast.Name) else r
            if isinstance(r_alias, ast.Attribute) or isinstance(r_alias, ast.Call):
                r = r_alias  # a local name for the label map's dict / its views
            atom = None
            if isinstance(l, ast.Name):
                d = dotted(r)
                if d and d.split(".")[-1] in labelmap_api(self.prog)["dict_names"] and l.id == self.pred_var:
                    atom = "cp"
                elif isinstance(r, ast.Call) and isinstance(r.func, ast.Attribute) and r.func.attr == "values" and not r.args:
                    d2 = dotted(r.func.value)
                    if d2 and d2.split(".")[-1] in labelmap_api(self.prog)["dict_names"] and l.id == self.ref_var:
                        atom = "cr"
                elif isinstance(r, ast.Call) and isinstance(r.func, ast.Attribute) and r.func.attr == "keys" and not r.args:
                    d2 = dotted(r.func.value)
                    if d2 and d2.split(".")[-1] in labelmap_api(self.prog)["dict_names"] and l.id == self.pred_var:
                        atom = "cp"
            if atom is None and isinstance(l, ast.Name) and l.id in (self.pred_var, self.ref_var):
                # a label looked up on the other side of the map (reference among the prediction keys,
                # prediction among the reference values): a fact of its own, tied to neither 'assigned' atom
                d = dotted(r)
                names = labelmap_api(self.prog)["dict_names"]
                if d and d.split(".")[-1] in names and l.id == self.ref_var:
                    atom = "ref-among-pred-keys"
                elif isinstance(r, ast.Call) and isinstance(r.func, ast.Attribute) and r.func.attr in ("values", "keys") and not r.args and (dotted(r.func.value) or "").split(".")[-1] in names:
                    atom = "ref-among-pred-keys" if (r.func.attr == "keys" and l.id == self.ref_var) else "pred-among-ref-values" if (r.func.attr == "values" and l.id == self.pred_var) else None
                if atom:
                    form.domains.setdefault(atom, [False, True])
            if atom:
                return (lambda a, k=atom: not a[k]) if neg else (lambda a, k=atom: a[k])
            # membership in a local tracking set/list/dict
            if isinstance(l, ast.Name) and isinstance(r, ast.Name) and l.id in (self.pred_var, self.ref_var):
                key = self.tracking_atom(r.id, l.id)
                if key is not None:
                    return (lambda a, k=key: not a[k]) if neg else (lambda a, k=key: a[k])
            return None
        # <dict>.get(<candidate label>) of a local dict filled together with the label map:
        #   ... is None      <=>  the label is not assigned yet (the stored values are scores, never None)
        #   truth value      <=>  assigned AND the stored score is not 0  (a recorded score of exactly 0
        #                         is possible: ASSD / RVD of a perfect match) - its own atom `zero:<dict>`
        g = self._dict_get(e)
        if g is not None:
            atom, dname = g
            zk = f"zero:{dname}"
            form.domains.setdefault(zk, [False, True])
            return lambda a, atom=atom, zk=zk: bool(a[atom]) and not a[zk]
        if isinstance(e, ast.Compare) and len(e.ops) == 1 and isinstance(e.ops[0], (ast.Is, ast.IsNot, ast.Eq, ast.NotEq)) and isinstance(e.comparators[0], ast.Constant) and e.comparators[0].value is None:
            g = self._dict_get(e.left)
            if g is not None:
                atom = g[0]
                if isinstance(e.ops[0], (ast.Is, ast.Eq)):
                    return lambda a, atom=atom: not a[atom]
                return lambda a, atom=atom: bool(a[atom])
        # None tests on label / score variables (ints / floats by construction)
        if isinstance(e, ast.Compare) and len(e.ops) == 1 and isinstance(e.ops[0], (ast.Is, ast.IsNot)):
            l, r = e.left, e.comparators[0]
            if isinstance(r, ast.Constant) and r.value is None:
                l2 = resolve_alias(self.f, l)
                if isinstance(l2, ast.Name) and (l2.id in self.label_vars or l2.id == self.score_var):
                    v = isinstance(e.ops[0], ast.IsNot)
                    return lambda a, v=v: v
            return None
        # numeric orderings
        if isinstance(e, ast.Compare) and len(e.ops) == 1 and isinstance(e.ops[0], (ast.Lt, ast.LtE, ast.Gt, ast.GtE, ast.Eq, ast.NotEq)):
            l, r = e.left, e.comparators[0]
            if isinstance(r, ast.Constant) and isinstance(r.value, bool):
                return None
            if isinstance(e.ops[0], (ast.Eq, ast.NotEq)) and any(isinstance(x, (ast.Compare, ast.BoolOp)) or (isinstance(x, ast.UnaryOp) and isinstance(x.op, ast.Not)) for x in (l, r)):
                return None  # (comparison) == / != (truth value): an equivalence of formulas, not an ordering
            key, flip = self.ordering(l, r)
            op = type(e.ops[0])
            table = {
                ast.Lt: {"<"},
                ast.LtE: {"<", "="},
                ast.Gt: {">"},
                ast.GtE: {">", "="},
                ast.Eq: {"="},
                ast.NotEq: {"<", ">"},
            }[op]
            if flip:
                table = {{"<": ">", ">": "<", "=": "="}[x] for x in table}
            return lambda a, key=key, table=table: a[key] in table
        # attributes: option flags, metric direction, properties
        if isinstance(e, ast.Attribute):
            if self.is_metric_expr(e.value):
                pol = metric_flag_attr(self.prog, e.attr)
                if pol in ("lower", "higher"):
                    key = "dec:" + self.metric_key(e.value)
                    form.domains.setdefault(key, [False, True])
                    if pol == "lower":
                        return lambda a, key=key: a[key]
                    return lambda a, key=key: not a[key]
                if pol in (True, False):
                    return lambda a, pol=pol: pol
            if isinstance(e.value, ast.Name) and e.value.id == self.f.self_name and self.f.cls is not None:
                p = init_param_of_attr(self.f.cls, e.attr)
                if p:
                    key = "cfg:" + p
                    form.domains.setdefault(key, [False, True])
                    return lambda a, key=key: a[key]
            # property of a package class -> inline
            tys = self.prog.expr_types(self.f, e.value, self.env)
            for t in tys:
                m = t.lookup(e.attr)
                if m is not None and m.is_property and self.depth < 6:
                    ex = inline_expr_function(m, {}, e.value)
                    if ex is not None:
                        return self._sub(ex)
            return None
        if isinstance(e, ast.Name):
            e2 = resolve_alias(self.f, e)
            if e2 is not e:
                return self._sub(e2)
            d = single_def(self.f, e.id)
            if d is not None and isinstance(d, (ast.BoolOp, ast.Compare, ast.UnaryOp, ast.Call, ast.IfExp)) and self.depth < 6:
                return self._sub(d)
            return None
        # predicate calls -> inline callee body
        if isinstance(e, ast.Call) and self.depth < 6:
            if isinstance(e.func, ast.Name) and not hasattr(e, "_pstat_callees"):
                # a local name bound once to a bound method / function: call through it
                d0 = single_def(self.f, e.func.id)
                if isinstance(d0, (ast.Attribute, ast.Name)) and d0 is not e.func:
                    e2 = ast.Call(func=d0, args=e.args, keywords=e.keywords)
                    ast.copy_location(e2, e)
                    return self.leaf(e2) or self.form._opaque(e)
            pre = getattr(e, "_pstat_callees", None)
            callees = pre if pre is not None else [c for c in self.prog.resolve_call(self.f, e, self.env, fanout=False) if isinstance(c, Func)]
            if len(callees) == 1:
                callee = callees[0]
                args, problems = bind_args(callee, e)
                if not problems:
                    recv = e.func.value if isinstance(e.func, ast.Attribute) else None
                    # calls by plain name inside the caller-side argument expressions belong to
                    # the caller's module; those of the callee's body to the callee's module
                    for side in list(args.values()) + ([recv] if recv is not None else []):
                        self._pin_calls(side, self.f)
                    # a Metric member delegates to its _Metric value: treat both alike
                    ex = inline_expr_function(callee, args, recv)
                    if ex is not None:
                        self._pin_calls(ex, callee)
                        return self._sub(ex, callee)
            return None
        return None

    def _dict_get(self, e: ast.expr):
        """(atom, dict name) if e is (a single-assignment local name for)  D.get(<pred|ref label>)  /
        D.get(<label>, None)  of a local collection D tracked by tracking_atom."""
        x = e
        if isinstance(x, ast.Name):
            d = single_def(self.f, x.id)
            if d is None:
                return None
            x = d
        if isinstance(x, ast.Call) and isinstance(x.func, ast.Attribute) and x.func.attr == "get" and isinstance(x.func.value, ast.Name) and 1 <= len(x.args) <= 2 and not x.keywords and isinstance(x.args[0], ast.Name) and x.args[0].id in (self.pred_var, self.ref_var):
            if len(x.args) == 2 and not (isinstance(x.args[1], ast.Constant) and x.args[1].value is None):
                return None
            key = self.tracking_atom(x.func.value.id, x.args[0].id)
            if key is not None:
                return key, x.func.value.id
        return None

    def tracking_atom(self, coll: str, elem: str) -> Optional[str]:
        """Atom for `elem in coll` where coll is a local set/list/dict filled in the loop.
        If every insertion of the element happens together with the label-map assignment of the
        same candidate, the collection mirrors the label map (atom = cp / cr).  Otherwise the
        collection can also contain labels that were only *visited*: a separate atom that is
        implied by cp / cr but not equivalent to it."""
        f = self.f
        is_local_coll = False
        for n in walk_no_nested(f.node):
            tgt = val = None
            if isinstance(n, ast.Assign) and len(n.targets) == 1 and isinstance(n.targets[0], ast.Name):
                tgt, val = n.targets[0].id, n.value
            elif isinstance(n, ast.AnnAssign) and isinstance(n.target, ast.Name) and n.value is not None:
                tgt, val = n.target.id, n.value
            if tgt == coll and ((isinstance(val, ast.Call) and dotted(val.func) in ("set", "list", "dict")) or isinstance(val, (ast.Set, ast.List, ast.Dict))):
                is_local_coll = True
        if not is_local_coll:
            return None
        base = "cp" if elem == self.pred_var else "cr"
        inserts = []
        for n in walk_no_nested(f.node):
            if isinstance(n, ast.Call) and isinstance(n.func, ast.Attribute) and isinstance(n.func.value, ast.Name) and n.func.value.id == coll and n.func.attr in ("add", "append") and n.args and isinstance(n.args[0], ast.Name) and n.args[0].id == elem:
                inserts.append(n)
            if isinstance(n, ast.Assign) and len(n.targets) == 1 and isinstance(n.targets[0], ast.Subscript) and isinstance(n.targets[0].value, ast.Name) and n.targets[0].value.id == coll and isinstance(n.targets[0].slice, ast.Name) and n.targets[0].slice.id == elem:
                inserts.append(n)
        if not inserts:
            return None
        pm = self.prog.parents(f)

        def block_of(node):
            st = node
            while id(st) in pm and not isinstance(st, ast.stmt):
                st = pm[id(st)]
            par = pm.get(id(st))
            for fld in ("body", "orelse", "finalbody"):
                b = getattr(par, fld, None)
                if isinstance(b, list) and st in b:
                    return b
            return []

        def has_assignment(block):
            # a sibling statement of the same block (same path condition) assigns the candidate
            for s_ in block:
                if isinstance(s_, ast.Expr) and isinstance(s_.value, ast.Call) and isinstance(s_.value.func, ast.Attribute) and s_.value.func.attr in labelmap_api(self.prog)["add"]:
                    return True
            return False

        mirrors = all(has_assignment(block_of(i)) for i in inserts)
        if mirrors:
            return base
        key = f"visited:{coll}"
        self.form.domains.setdefault(key, [False, True])
        self.extra_feasible.append((base, key))
        return key

    def feasible(self, a: dict) -> bool:
        # a label that is in the label map has also been put into every collection that tracks it
        return all((not a[b]) or a[k] for b, k in self.extra_feasible)

    def _pin_calls(self, ex: ast.AST, ctx_func: Func):
        """Resolve calls of plain names in `ex` in the module of ctx_func once, so that the
        expression can later be compiled in another function's context."""
        for c in ast.walk(ex):
            if isinstance(c, ast.Call) and isinstance(c.func, ast.Name) and not hasattr(c, "_pstat_callees"):
                try:
                    r = [x for x in self.prog.resolve_call(ctx_func, c, fanout=False) if isinstance(x, Func)]
                except Exception:
                    r = []
                if r:
                    c._pstat_callees = r

    def _sub(self, ex: ast.expr, callee: Optional[Func] = None):
        self.depth += 1
        try:
            if callee is not None and callee.cls is not None:
                # evaluate the inlined body with type information of the callee's `self`
                # (properties like self.increasing): resolve types by trying the callee context
                saved_f, saved_env = self.f, self.env
                try:
                    return self._compile_in_callee(ex, callee)
                finally:
                    self.f, self.env = saved_f, saved_env
            return self.form.compile(ex)
        finally:
            self.depth -= 1

    def _compile_in_callee(self, ex: ast.expr, callee: Func):
        # After substitution the expression only mentions caller-side names (receiver
        # expression replaced `self`), so it is compiled in the caller's context.
        return self.form.compile(ex)


def matcher_loop(prog: Program, f: Func) -> tuple[ast.For, str, str, str]:
    """The candidate loop of a matcher: `for score, (ref, pred) in <pairs>` where <pairs> comes
    from _calc_matching_metric_of_overlapping_labels.  Returns (loop, score, ref, pred)."""
    target = prog.func("_functionals:_calc_matching_metric_of_overlapping_labels")

    def yields_target(g: Func, call: ast.Call, depth: int = 0) -> bool:
        """The call evaluates to the candidate list: it calls the candidate function, or a
        wrapper all of whose returns hand back such a call's result."""
        callees = prog.resolve_call(g, call)
        if target in callees:
            return True
        if depth >= 3:
            return False
        for h in callees:
            if not isinstance(h, Func) or h is g:
                continue
            rets = [r for r in walk_no_nested(h.node) if isinstance(r, ast.Return)]
            if not rets:
                continue
            good = True
            for r in rets:
                v = r.value
                if isinstance(v, ast.Name):
                    d = single_def(h, v.id)
                    v = d if d is not None else v
                if not (isinstance(v, ast.Call) and yields_target(h, v, depth + 1)):
                    good = False
            if good:
                return True
        return False

    src_vars = set()
    for n in walk_no_nested(f.node):
        if isinstance(n, ast.Assign) and isinstance(n.value, ast.Call) and yields_target(f, n.value):
            for t in n.targets:
                if isinstance(t, ast.Name):
                    src_vars.add(t.id)
    loops = []
    for n in walk_no_nested(f.node):
        if isinstance(n, ast.For):
            it = n.iter
            ok = (isinstance(it, ast.Name) and it.id in src_vars) or (isinstance(it, ast.Call) and yields_target(f, it))
            if ok:
                loops.append(n)
    if len(loops) > 1:
        # the greedy loop is the one that assigns label map entries
        with_add = [l for l in loops if any(isinstance(c, ast.Call) and isinstance(c.func, ast.Attribute) and c.func.attr in labelmap_api(prog)["add"] for c in ast.walk(l))]
        if len(with_add) == 1:
            loops = with_add
    if len(loops) != 1:
        raise AnchorMissing(f"{f.qual}: expected exactly one loop over the candidate pairs, found {len(loops)}")
    lp = loops[0]
    t = lp.target
    # the layout of a candidate record is whatever the generator produces (read off its abstract
    # run): the loop target must take it apart position by position
    layout = candidate_layout(prog)

    def paths(node, prefix=()):
        if isinstance(node, ast.Name):
            return {prefix: node.id}
        if isinstance(node, (ast.Tuple, ast.List)) and not any(isinstance(x, ast.Starred) for x in node.elts):
            out = {}
            for i, x in enumerate(node.elts):
                sub = paths(x, prefix + (i,))
                if sub is None:
                    return None
                out.update(sub)
            return out
        return None

    tp = paths(t)
    if tp is not None and set(tp) == set(layout):
        by_role = {layout[pth]: name for pth, name in tp.items()}
        return lp, by_role["score"], by_role["ref"], by_role["pred"]
    raise Undecided(f"{f.qual}: candidate loop target {norm(t)} does not take a candidate record {sorted(layout.items())} apart position by position")


_LAYOUT_CACHE: dict = {}


def candidate_layout(prog: Program) -> dict:
    """{position path -> 'score' | 'ref' | 'pred'} of the records the candidate generator returns,
    e.g. {(0,): 'score', (1, 0): 'ref', (1, 1): 'pred'} for (score, (ref, pred)).  Determined by
    running the generator abstractly (c03.CandInterp); if that is not possible the pinned layout."""
    key = id(prog)
    if key in _LAYOUT_CACHE:
        return _LAYOUT_CACHE[key][1]
    default = {(0,): "score", (1, 0): "ref", (1, 1): "pred"}
    layout = default
    try:
        from . import c03

        layout = c03.generator_layout(prog) or default
    except (Undecided, AnchorMissing):
        layout = default
    _LAYOUT_CACHE.clear()
    _LAYOUT_CACHE[key] = (prog, layout)
    return layout
