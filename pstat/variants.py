"""Variant corpus: mutants (must be reported) and twins (behaviour-preserving rewrites that
must stay silent), expressed as textual edits of the *frozen base corpus*
(pstat/corpus/base = the package at the commit recorded in corpus/BASE_COMMIT) and analysed
in memory.  The corpus is independent of /repo's current state, so it can never turn an
edited /repo into a false alarm; it only shows that each rule is alive (fires on a broken
instance) and not brittle (silent on an equivalent rewrite).
"""

from __future__ import annotations

import ast
import importlib
import os
from dataclasses import dataclass, field
from functools import lru_cache

from .model import read_sources

CORPUS = os.path.join(os.path.dirname(os.path.abspath(__file__)), "corpus", "base")


@dataclass
class Variant:
    vid: str
    rule: str  # rule id prefix expected to fire (mutants); informational for twins
    kind: str  # 'mutant' | 'twin' | 'mutant-undecided'
    edits: list  # [(relative path, old text, new text)]
    control: bool = False  # run in the quick tier as the rule's positive control
    note: str = ""
    prop: str = ""


@lru_cache(maxsize=1)
def _base() -> dict:
    return read_sources(CORPUS)


def base_sources() -> dict:
    return dict(_base())


def apply(v: Variant) -> dict:
    src = base_sources()
    for path, old, new in v.edits:
        if path not in src:
            raise KeyError(f"variant {v.vid}: no file {path}")
        n = src[path].count(old)
        if n != 1:
            raise ValueError(f"variant {v.vid}: pattern occurs {n} times in {path}: {old[:60]!r}")
        src[path] = src[path].replace(old, new)
        if path.endswith(".py"):
            ast.parse(src[path])  # variants must still compile
    return src


_REG: dict[str, list[Variant]] = {}


def for_property(prop: str) -> list[Variant]:
    if prop not in _REG:
        try:
            mod = importlib.import_module(f"pstat.rules.{prop.lower()}")
        except ModuleNotFoundError:
            _REG[prop] = []
            return []
        vs = list(getattr(mod, "VARIANTS", []))
        for v in vs:
            v.prop = prop
        ids = [v.vid for v in vs]
        assert len(ids) == len(set(ids)), f"duplicate variant ids in {prop}"
        _REG[prop] = vs
    return _REG[prop]


def by_id(vid: str) -> Variant:
    prop = vid.split("-")[0]
    for v in for_property(prop):
        if v.vid == vid:
            return v
    raise KeyError(vid)
