"""Variant corpus: mutants (must be reported) and twins (behaviour-preserving rewrites that
must stay silent), expressed as textual edits of the *frozen base corpus*
(pstat/corpus/base = the package at the commit recorded in corpus/BASE_COMMIT) and analysed
in memory.  The corpus is independent of /repo's current state, so it can never turn an
edited /repo into a false alarm; it only shows that each rule is alive (fires on a broken
instance) and not brittle (silent on an equivalent rewrite).
"""

from __future__ import annotations

import ast
import importlib
import os
from dataclasses import dataclass, field
from functools import lru_cache

from .model import read_sources

CORPUS = os.path.join(os.path.dirname(os.path.abspath(__file__)), "corpus", "base")


@dataclass
class Variant:
    vid: str
    rule: str  # rule id prefix expected to fire (mutants); informational for twins
    kind: str  # 'mutant' | 'twin' | 'mutant-undecided'
    edits: list  # [(relative path, old text, new text)]
    control: bool = False  # run in the quick tier as the rule's positive control
    note: str = ""
    prop: str = ""
    diff: str = ""  # name of a unified diff under corpus/twins applied instead of `edits`
    rename: tuple = ()  # (old identifier, new identifier): whole-word rename in every file


@lru_cache(maxsize=1)
def _base() -> dict:
    return read_sources(CORPUS)


def base_sources() -> dict:
    return dict(_base())


TWINS = os.path.join(os.path.dirname(CORPUS), "twins")


def apply_unified_diff(src: dict, text: str, name: str = "") -> None:
    """Apply a `git diff` (unified format) to the in-memory sources; every context and
    removed line must match exactly."""
    cur = None
    lines: list[str] = []
    out: list[str] = []
    pos = 0

    def flush():
        nonlocal cur, lines, out, pos
        if cur is not None:
            out += lines[pos:]
            src[cur] = "".join(out)
        cur, lines, out, pos = None, [], [], 0

    it = text.splitlines(keepends=True)
    i = 0
    while i < len(it):
        ln = it[i]
        if ln.startswith("--- "):
            flush()
            new = it[i + 1]
            assert new.startswith("+++ "), f"{name}: malformed diff header"
            path = new[4:].strip()
            path = path[2:] if path.startswith("b/") else path
            if not path.startswith("panoptica/"):
                i += 2
                continue  # files outside the analysed package
            cur = path
            lines = src.get(cur, "").splitlines(keepends=True)
            out, pos = [], 0
            i += 2
            continue
        if ln.startswith("@@") and cur is not None:
            start = int(ln.split()[1].split(",")[0][1:])
            start = max(start - 1, 0) if lines else 0
            # the base may have moved by a few lines since the diff was taken (repairs committed to
            # the repository): locate the hunk's own context/removed lines near the stated position
            j = i + 1
            want = []
            while j < len(it) and not it[j].startswith(("@@", "diff --git", "--- ")):
                if it[j][:1] in (" ", "-"):
                    want.append(it[j][1:].rstrip("\n"))
                j += 1
            if want and lines:
                def fits(k):
                    return k >= pos and k + len(want) <= len(lines) and all(lines[k + q].rstrip("\n") == want[q] for q in range(len(want)))

                if not fits(start):
                    for d in range(1, 60):
                        if fits(start + d):
                            start += d
                            break
                        if fits(start - d):
                            start -= d
                            break
            out += lines[pos:start]
            pos = start
            i += 1
            while i < len(it) and not it[i].startswith(("@@", "diff --git", "--- ")):
                h = it[i]
                if h.startswith("\\"):
                    i += 1
                    continue
                tag, body = h[:1], h[1:]
                if tag in (" ", "-"):
                    if pos >= len(lines) or lines[pos].rstrip("\n") != body.rstrip("\n"):
                        raise ValueError(f"twin {name}: hunk does not apply at {cur}:{pos + 1}")
                    if tag == " ":
                        out.append(lines[pos])
                    pos += 1
                elif tag == "+":
                    out.append(body)
                i += 1
            continue
        i += 1
    flush()


def apply(v: Variant) -> dict:
    src = base_sources()
    if v.rename:
        import re

        old, new = v.rename
        pat = re.compile(r"(?<![A-Za-z0-9_])" + re.escape(old) + r"(?![A-Za-z0-9_])")
        n = 0
        for path in list(src):
            if path.endswith(".py"):
                src[path], k = pat.subn(new, src[path])
                n += k
                ast.parse(src[path])
        if n < 1:
            raise ValueError(f"variant {v.vid}: identifier {old} occurs {n} times")
        return src
    if v.diff:
        with open(v.diff if os.path.isabs(v.diff) else os.path.join(TWINS, v.diff)) as fh:
            apply_unified_diff(src, fh.read(), v.diff)
        for path, text in src.items():
            if path.endswith(".py"):
                ast.parse(text)
        return src
    for path, old, new in v.edits:
        if path not in src:
            raise KeyError(f"variant {v.vid}: no file {path}")
        n = src[path].count(old)
        if n != 1:
            raise ValueError(f"variant {v.vid}: pattern occurs {n} times in {path}: {old[:60]!r}")
        src[path] = src[path].replace(old, new)
        if path.endswith(".py"):
            ast.parse(src[path])  # variants must still compile
    return src


@lru_cache(maxsize=1)
def private_attribute_names() -> list:
    """Private instance attributes (self._x / self.__x) of the base corpus that are not also
    function names: renaming one consistently keeps behaviour."""
    import re

    names: set[str] = set()
    funcs: set[str] = set()
    text_all = ""
    for path, text in _base().items():
        if path.endswith(".py"):
            text_all += text
            names |= set(re.findall(r"\bself\.(_[A-Za-z0-9_]*[A-Za-z0-9])\b\s*(?::[^=\n]+)?=[^=]", text))
            funcs |= set(re.findall(r"def (_[A-Za-z0-9_]*)\(", text))
    out = []
    for n in sorted(names - funcs):
        if n.endswith("__"):
            continue
        # skip names that also occur as keyword arguments / strings (public protocol, yaml keys)
        if re.search(r"[\"']" + re.escape(n) + r"[\"']", text_all) or re.search(r"\b" + re.escape(n) + r"\s*=[^=]", re.sub(r"self\." + re.escape(n), "", text_all)):
            continue
        out.append(n)
    return out


_REG: dict[str, list[Variant]] = {}


def _applies(diff_path: str) -> bool:
    try:
        src = base_sources()
        with open(diff_path) as fh:
            apply_unified_diff(src, fh.read(), diff_path)
        return True
    except Exception:
        return False


_INTERFACE_NAMES = {"_yaml_repr", "_match_instances", "_approximate_instances", "_register_permanently"}


@lru_cache(maxsize=1)
def private_function_names() -> list:
    """Private (underscore) functions and methods of the base corpus that are defined once:
    the names a maintainer may rename freely."""
    import re

    count: dict[str, int] = {}
    for path, text in _base().items():
        if path.endswith(".py"):
            for m in re.finditer(r"^\s*def (_[A-Za-z0-9_]*[A-Za-z0-9])\(", text, re.M):
                if not (m.group(1).startswith("__") and m.group(1).endswith("__")):
                    count[m.group(1)] = count.get(m.group(1), 0) + 1
    return sorted(n for n, c in count.items() if c == 1 and n not in _INTERFACE_NAMES and not n.endswith("__"))


def for_property(prop: str) -> list[Variant]:
    if prop not in _REG:
        try:
            mod = importlib.import_module(f"pstat.rules.{prop.lower()}")
        except ModuleNotFoundError:
            _REG[prop] = []
            return []
        vs = list(getattr(mod, "VARIANTS", []))
        # independent behaviour-preserving refactorings (written without knowledge of the
        # checks): every property's check must be silent on each of them
        if os.path.isdir(TWINS):
            for fn in sorted(os.listdir(TWINS)):
                if fn.endswith(".diff"):
                    vs.append(Variant(f"{prop}-x-{fn[:-5]}", "", "twin", [], diff=fn, note="independent refactoring"))
        # the seeded changes of this property (independent sub-agents): each must be reported
        sroot = os.path.join(os.path.dirname(os.path.dirname(os.path.abspath(__file__))), "seeded")
        if os.path.isdir(sroot):
            for sid in sorted(os.listdir(sroot)):
                pd = os.path.join(sroot, sid, "patch.diff")
                if sid.startswith(prop) and os.path.isfile(pd) and _applies(pd):
                    kind = "mutant"
                    try:
                        import json as _json

                        if _json.load(open(os.path.join(sroot, sid, "meta.json"))).get("limit"):
                            kind = "mutant-undecided"  # a documented limit: the check must at least not pass silently
                    except (OSError, ValueError):
                        pass
                    vs.append(Variant(f"{prop}-s-{sid}", "R", kind, [], diff=pd, note="seeded change (sub-agent)"))
        # breaking edits on top of a refactored tree (<PROP>__<rule>__<name>.diff): each must be reported
        mroot = os.path.join(os.path.dirname(TWINS), "mutants")
        if os.path.isdir(mroot):
            for fn in sorted(os.listdir(mroot)):
                if fn.endswith(".diff") and fn.startswith(prop + "__"):
                    _, rule, nm = fn[:-5].split("__", 2)
                    vs.append(Variant(f"{prop}-m2-{nm}", rule, "mutant", [], diff=os.path.join(mroot, fn), note="breaking edit of a refactored tree"))
        for name in private_function_names():
            new = name + "_impl" if not name.startswith("__") else name + "_impl"
            vs.append(Variant(f"{prop}-r-{name.strip('_')}", "", "twin", [], rename=(name, new), note="private helper renamed"))
        for name in private_attribute_names():
            vs.append(Variant(f"{prop}-a-{'p' * (len(name) - len(name.lstrip('_')))}_{name.strip('_')}", "", "twin", [], rename=(name, name + "_priv"), note="private attribute renamed"))
        for v in vs:
            v.prop = prop
        ids = [v.vid for v in vs]
        assert len(ids) == len(set(ids)), f"duplicate variant ids in {prop}"
        _REG[prop] = vs
    return _REG[prop]


def by_id(vid: str) -> Variant:
    prop = vid.split("-")[0]
    for v in for_property(prop):
        if v.vid == vid:
            return v
    raise KeyError(vid)
