"""pstat - repository-specific static analyser for BrainLesion/panoptica.

Nothing in this package imports or executes panoptica.  Every verdict is derived from the
source text under $VERIF_REPO (default /repo) with the stdlib ``ast`` module.
"""

__all__ = ["model", "flow", "absval", "poly", "report"]
