"""Small exact linear-arithmetic helper over non-negative integer unknowns.

prove_nonneg(target, slacks): sound (incomplete) Farkas-style proof that `target >= 0`
follows from  slack_i >= 0  and all unknowns >= 0: some sub-sum of the slacks subtracted
from the target leaves a polynomial with non-negative coefficients.
find_counterexample(...): searches concrete valuations satisfying all constraints with
target < 0; a hit is a definitive refutation.  Neither => undecided.
"""

from __future__ import annotations

import itertools
from fractions import Fraction
from typing import Optional

from .poly import Poly, to_poly
from .symint import evaluate

INTERESTING = [0, 1, 2, 3, 127, 128, 254, 255, 256, 257, 32767, 65534, 65535, 65536, 65537, 2**24 - 2, 2**24 - 1, 2**24, 2**31 - 1, 2**32 - 2, 2**32 - 1, 2**32, 2**48, 2**63 - 1, 2**63, 2**64 - 2, 2**64 - 1]


def constraint_slack(sym: str, a: Poly, b: Poly, truth: bool) -> list[Poly]:
    """Slack polynomials (each >= 0 over the integers) equivalent to `(a sym b) == truth`.
    '!=' true has no convex slack and yields []. """
    a, b = to_poly(a), to_poly(b)
    neg = {"<": ">=", "<=": ">", ">": "<=", ">=": "<", "==": "!=", "!=": "=="}
    if not truth:
        sym = neg[sym]
    one = Poly.const(1)
    if sym == "<":
        return [b - a - one]
    if sym == "<=":
        return [b - a]
    if sym == ">":
        return [a - b - one]
    if sym == ">=":
        return [a - b]
    if sym == "==":
        return [a - b, b - a]
    return []


_PN_CACHE: dict = {}


def prove_nonneg(target: Poly, slacks: list[Poly], max_subset: int = 4) -> bool:
    target = to_poly(target)
    if target.nonneg_coeffs():
        return True
    key = (target, tuple(slacks))
    if key in _PN_CACHE:
        return _PN_CACHE[key]
    r = _prove_nonneg(target, slacks, max_subset)
    _PN_CACHE[key] = r
    return r


def _prove_nonneg(target: Poly, slacks: list[Poly], max_subset: int = 4) -> bool:
    sl = [s for s in slacks if not s.is_zero()]
    for k in range(1, min(max_subset, len(sl)) + 1):
        for combo in itertools.combinations(range(len(sl)), k):
            t = target
            for i in combo:
                t = t - sl[i]
            if t.nonneg_coeffs():
                return True
            # coefficient 2 on single slacks (rarely needed)
    for s in sl:
        for lam in (2, 3):
            if (target - Poly.const(lam) * s).nonneg_coeffs():
                return True
    return False


_CE_CACHE: dict = {}


def _compile(p: Poly, index: dict):
    out = []
    for m, c in p.terms.items():
        out.append((c.numerator, c.denominator, [(index[v], e) for v, e in m]))
    return out


def _eval(cp, vals) -> Fraction:
    tot = Fraction(0)
    itot = 0
    all_int = True
    for num, den, mono in cp:
        t = num
        for i, e in mono:
            t *= vals[i] ** e
        if den == 1:
            itot += t
        else:
            all_int = False
            tot += Fraction(t, den)
    return itot if all_int else tot + itot


def find_counterexample(target: Poly, slacks: list[Poly], variables: Optional[list[str]] = None, extra_values=()) -> Optional[dict]:
    """A non-negative integer valuation with all slacks >= 0 and target < 0."""
    target = to_poly(target)
    key = (target, tuple(slacks), tuple(extra_values))
    if key in _CE_CACHE:
        return _CE_CACHE[key]
    vs = sorted(set(variables or []) | target.variables() | (set().union(*[s.variables() for s in slacks]) if slacks else set()))
    index = {v: i for i, v in enumerate(vs)}
    ct = _compile(target, index)
    cs = [_compile(s, index) for s in slacks]

    def ok(vals):
        if _eval(ct, vals) >= 0:
            return False
        for c in cs:
            if _eval(c, vals) < 0:
                return False
        return True

    def done(vals):
        res = {v: vals[i] for v, i in index.items()} if vals is not None else None
        _CE_CACHE[key] = res
        return res

    n = len(vs)
    base = [0] * n
    if ok(base):
        return done(base)
    # boundary values: where the target or a slack changes sign along one coordinate axis
    extra = set(extra_values)
    for q in [target] + list(slacks):
        q0 = q.const_value()
        for v in q.variables():
            coef = q.terms.get(((v, 1),), None)
            if coef:
                root = -q0 / coef
                if root >= 0:
                    r = int(root)
                    extra.update({max(r - 1, 0), r, r + 1, r + 2})
    cands = sorted(set(INTERESTING) | extra)
    for i in range(n):
        for c in cands:
            vals = list(base)
            vals[i] = c
            if ok(vals):
                return done(vals)
    small = sorted({0, 1, 2, 254, 255, 256, 65534, 65535, 65536, 2**24 - 1, 2**24, 2**32 - 1, 2**32} | {e for e in extra if e < 2**40})
    if len(small) > 24:
        small = small[:12] + small[-12:]
    for i, j in itertools.combinations(range(n), 2):
        for c1 in small:
            for c2 in small:
                vals = list(base)
                vals[i], vals[j] = c1, c2
                if ok(vals):
                    return done(vals)
    return done(None)


def box_upper_bounds(slacks: list[Poly]) -> dict:
    """Per-variable upper bounds implied by slacks of the form  c - sum(a_i * x_i) >= 0  with
    all a_i > 0 (a sound relaxation of the constraint polytope to a box)."""
    ub: dict = {}
    for s_ in slacks:
        if not s_.is_linear():
            continue
        c = s_.const_value()
        coefs = {m[0][0]: k for m, k in s_.terms.items() if m}
        if not coefs or any(k > 0 for k in coefs.values()) or c < 0:
            continue
        for v, k in coefs.items():
            b = c / (-k)
            if v not in ub or b < ub[v]:
                ub[v] = b
    return ub


def decide_leq(value: Poly, bound, slacks: list[Poly], variables=None):
    """Is value <= bound under the constraints?  (True, None) / (False, witness) / (None, None)."""
    target = to_poly(bound) - to_poly(value)
    if prove_nonneg(target, slacks):
        return True, None
    value = to_poly(value)
    if value.nonneg_coeffs():
        # monotone polynomial: bounded by its value at the box relaxation's upper corner
        ub = box_upper_bounds(slacks)
        if all(v in ub for v in value.variables()):
            top = evaluate(value, {v: ub[v] for v in value.variables()})
            if top <= evaluate(to_poly(bound), {}):
                return True, None
    w = find_counterexample(target, slacks, variables, extra_values=[int(bound), int(bound) + 1] if isinstance(bound, int) else ())
    if w is not None:
        return False, w
    return None, None
