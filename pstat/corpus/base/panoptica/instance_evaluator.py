from multiprocessing import Pool
import numpy as np

from panoptica.metrics import Metric
from panoptica.utils.processing_pair import MatchedInstancePair, EvaluateInstancePair
from panoptica._functionals import _get_paired_crop


def evaluate_matched_instance(
    matched_instance_pair: MatchedInstancePair,
    eval_metrics: list[Metric] = [Metric.DSC, Metric.IOU, Metric.ASSD],
    decision_metric: Metric | None = Metric.IOU,
    decision_threshold: float | None = None,
    **kwargs,
) -> EvaluateInstancePair:
    """
    Evaluate a given MatchedInstancePair given metrics and decision threshold.

    Args:
        processing_pair (MatchedInstancePair): The matched instance pair containing original labels.
        labelmap (Instance_Label_Map): The instance label map obtained from instance matching.

    Returns:
        EvaluateInstancePair: Evaluated pair of instances

    """
    if decision_metric is not None:
        assert decision_metric.name in [
            v.name for v in eval_metrics
        ], "decision metric not contained in eval_metrics"
        assert decision_threshold is not None, "decision metric set but no threshold"
    # Initialize variables for True Positives (tp)
    tp = 0
    score_dict: dict[Metric, list[float]] = {m: [] for m in eval_metrics}

    reference_arr, prediction_arr = (
        matched_instance_pair.reference_arr,
        matched_instance_pair.prediction_arr,
    )
    ref_matched_labels = matched_instance_pair.matched_instances

    instance_pairs = [
        (reference_arr, prediction_arr, ref_idx, eval_metrics)
        for ref_idx in ref_matched_labels
    ]

    # metric_dicts: list[dict[Metric, float]] = [_evaluate_instance(*i) for i in instance_pairs]
    with Pool() as pool:
        metric_dicts: list[dict[Metric, float]] = pool.starmap(
            _evaluate_instance, instance_pairs
        )

    # TODO if instance matcher already gives matching metric, adapt here!
    for metric_dict in metric_dicts:
        if decision_metric is None or (
            decision_threshold is not None
            and decision_metric.score_beats_threshold(
                metric_dict[decision_metric], decision_threshold
            )
        ):
            tp += 1
            for k, v in metric_dict.items():
                score_dict[k].append(v)

    # Create and return the PanopticaResult object with computed metrics
    return EvaluateInstancePair(
        reference_arr=matched_instance_pair.reference_arr,
        prediction_arr=matched_instance_pair.prediction_arr,
        num_pred_instances=matched_instance_pair.n_prediction_instance,
        num_ref_instances=matched_instance_pair.n_reference_instance,
        tp=tp,
        list_metrics=score_dict,
    )


def _evaluate_instance(
    reference_arr: np.ndarray,
    prediction_arr: np.ndarray,
    ref_idx: int,
    eval_metrics: list[Metric],
) -> dict[Metric, float]:
    """
    Evaluate a single instance.

    Args:
        ref_labels (np.ndarray): Reference instance segmentation mask.
        pred_labels (np.ndarray): Predicted instance segmentation mask.
        ref_idx (int): The label of the current instance.
        iou_threshold (float): The IoU threshold for considering a match.

    Returns:
        Tuple[int, float, float]: Tuple containing True Positives (int), Dice coefficient (float), and IoU (float).
    """
    ref_arr = reference_arr == ref_idx
    pred_arr = prediction_arr == ref_idx

    if ref_arr.sum() == 0 or pred_arr.sum() == 0:
        return {}

    # Crop down for speedup
    crop = _get_paired_crop(
        pred_arr,
        ref_arr,
    )

    ref_arr = ref_arr[crop]
    pred_arr = pred_arr[crop]

    result: dict[Metric, float] = {}
    for metric in eval_metrics:
        metric_value = metric(ref_arr, pred_arr)
        result[metric] = metric_value

    return result
