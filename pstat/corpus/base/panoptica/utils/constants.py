from enum import Enum, auto
from panoptica.utils.config import (
    _register_class_to_yaml,
    _load_from_config,
    _load_from_config_name,
    _save_to_config,
)
from pathlib import Path
import numpy as np


class _Enum_Compare(Enum):
    """An extended Enum class that supports additional comparison and YAML configuration functionality.

    This class enhances standard `Enum` capabilities, allowing comparisons with other enums or strings by
    name and adding support for YAML serialization and deserialization methods.

    Methods:
        __eq__(__value): Checks equality with another Enum or string.
        __str__(): Returns a string representation of the Enum instance.
        __repr__(): Returns a string representation for debugging.
        load_from_config(cls, path): Loads an Enum instance from a configuration file.
        load_from_config_name(cls, name): Loads an Enum instance from a configuration file identified by name.
        save_to_config(path): Saves the Enum instance to a configuration file.
        to_yaml(cls, representer, node): Serializes the Enum to YAML.
        from_yaml(cls, constructor, node): Deserializes YAML data into an Enum instance.
    """

    def __eq__(self, __value: object) -> bool:
        if isinstance(__value, Enum):
            namecheck = self.name == __value.name
            if not namecheck:
                return False
            if self.value is None:
                return __value.value is None

            try:
                if np.isnan(self.value):
                    return np.isnan(__value.value)
            except Exception:
                pass

            return self.value == __value.value
        elif isinstance(__value, str):
            return self.name == __value
        else:
            return False

    def __str__(self) -> str:
        return f"{type(self).__name__}.{self.name}"

    def __repr__(self) -> str:
        return str(self)

    def __init_subclass__(cls, **kwargs):
        # Registers all subclasses of this
        super().__init_subclass__(**kwargs)
        cls._register_permanently()

    @classmethod
    def _register_permanently(cls):
        _register_class_to_yaml(cls)

    @classmethod
    def load_from_config(cls, path: str | Path):
        return _load_from_config(cls, path)

    @classmethod
    def load_from_config_name(cls, name: str):
        return _load_from_config_name(cls, name)

    def save_to_config(self, path: str | Path):
        _save_to_config(self, path)

    @classmethod
    def to_yaml(cls, representer, node):
        # cls._register_permanently()
        # assert hasattr(cls, "_yaml_repr"), f"Class {cls.__name__} has no _yaml_repr(cls, node) defined"
        return representer.represent_scalar("!" + cls.__name__, str(node.name))

    @classmethod
    def from_yaml(cls, constructor, node):
        return cls[node.value]


class CCABackend(_Enum_Compare):
    """
    Enumeration representing different connected component analysis (CCA) backends.

    This enumeration defines options for CCA backends, which are used for labeling connected components in segmentation masks.

    Members:
        - cc3d: Represents the Connected Components in 3D (CC3D) backend for CCA.
          [CC3D Website](https://github.com/seung-lab/connected-components-3d)
        - scipy: Represents the SciPy backend for CCA.
          [SciPy Website](https://www.scipy.org/)
    """

    cc3d = auto()
    scipy = auto()


if __name__ == "__main__":
    print(CCABackend.cc3d == "cc3d")
    print("cc3d" == CCABackend.cc3d)
