import os

from rich.console import Console

CITATION_LINK = "https://github.com/BrainLesion/panoptica#citation"


def citation_reminder(func):
    """Decorator to remind users to cite panoptica."""

    def wrapper(*args, **kwargs):
        if os.environ.get("PANOPTICA_CITATION_REMINDER", "true").lower() == "true":
            console = Console()
            console.rule("Thank you for using [bold]panoptica[/bold]")
            console.print(
                "Please support our development by citing",
                justify="center",
            )
            console.print(
                f"{CITATION_LINK} -- Thank you!",
                justify="center",
            )
            console.rule()
            console.line()
            os.environ["PANOPTICA_CITATION_REMINDER"] = "false"  # Show only once
        return func(*args, **kwargs)

    return wrapper
