import numpy as np
from pathlib import Path
from panoptica.utils.config import SupportsConfig
from panoptica.utils.label_group import LabelGroup, _LabelGroupAny

NO_GROUP_KEY = "ungrouped"


class SegmentationClassGroups(SupportsConfig):
    """Represents a collection of segmentation class groups.

    This class manages groups of labels used in segmentation tasks, ensuring that each label is defined
    exactly once across all groups. It supports both list and dictionary formats for group initialization.

    Attributes:
        __group_dictionary (dict[str, LabelGroup]): A dictionary mapping group names to their respective LabelGroup instances.
        __labels (list[int]): A flat list of unique labels collected from all LabelGroups.

    Args:
        groups (list[LabelGroup] | dict[str, LabelGroup | tuple[list[int] | int, bool]]):
            A list of `LabelGroup` instances or a dictionary where keys are group names (str) and values are either
            `LabelGroup` instances or tuples containing a list of label values and a boolean.

    Raises:
        AssertionError: If the same label is assigned to multiple groups.
    """

    def __init__(
        self,
        groups: list[LabelGroup] | dict[str, LabelGroup | tuple[list[int] | int, bool]],
    ) -> None:
        self.__group_dictionary: dict[str, LabelGroup] = {}
        self.__labels: list[int] = []
        # maps name of group to the group itself

        if isinstance(groups, list):
            self.__group_dictionary = {
                f"group_{idx}": g for idx, g in enumerate(groups)
            }
        elif isinstance(groups, dict):
            # transform dict into list of LabelGroups
            for i, g in groups.items():
                name_lower = str(i).lower()
                if isinstance(g, LabelGroup):
                    self.__group_dictionary[name_lower] = g
                else:
                    self.__group_dictionary[name_lower] = LabelGroup(g[0], g[1])

        # needs to check that each label is accounted for exactly ONCE
        labels = [
            value_label
            for lg in self.__group_dictionary.values()
            for value_label in lg.value_labels
        ]
        duplicates = list_duplicates(labels)
        if len(duplicates) > 0:
            print(
                f"The same labels {duplicates} were assigned to two different labelgroups, got {str(self)}\nIntended? This will evaluate the duplicate labels in both groups"
            )
        self.__labels = labels

    def has_defined_labels_for(
        self, arr: np.ndarray | list[int], raise_error: bool = False
    ):
        """Checks if the labels in the provided array are defined in the segmentation class groups.

        Args:
            arr (np.ndarray | list[int]): The array of labels to check.
            raise_error (bool): If True, raises an error when an undefined label is found. Defaults to False.

        Returns:
            bool: True if all labels are defined; False otherwise.

        Raises:
            AssertionError: If an undefined label is found and raise_error is True.
        """
        if isinstance(arr, list):
            arr_labels = arr
        else:
            arr_labels = [i for i in np.unique(arr) if i != 0]
        for al in arr_labels:
            if al not in self.labels:
                if raise_error:
                    raise AssertionError(
                        f"Input array has labels undefined in the SegmentationClassGroups, got label {al} the groups are defined as {str(self)}"
                    )
                return False
        return True

    def __str__(self) -> str:
        text = "SegmentationClassGroups = "
        for i, lg in self.__group_dictionary.items():
            text += f"\n - {i} : {str(lg)}"
        return text

    def __contains__(self, item):
        return item in self.__group_dictionary

    def __getitem__(self, key):
        return self.__group_dictionary[key]

    def __iter__(self):
        yield from self.__group_dictionary

    def keys(self) -> list[str]:
        return list(self.__group_dictionary.keys())

    @property
    def labels(self):
        return self.__labels

    def items(self):
        for k in self:
            yield k, self[k]

    @classmethod
    def _yaml_repr(cls, node):
        return {"groups": node.__group_dictionary}


def list_duplicates(seq):
    """Identifies duplicates in a sequence.

    Args:
        seq (list): The input sequence to check for duplicates.

    Returns:
        list: A list of duplicates found in the input sequence.
    """
    seen = set()
    seen_add = seen.add
    # adds all elements it doesn't know yet to seen and all other to seen_twice
    seen_twice = set(x for x in seq if x in seen or seen_add(x))
    # turn the set into a list (as requested)
    return list(seen_twice)


class _NoSegmentationClassGroups(SegmentationClassGroups):
    """Represents a placeholder for segmentation class groups with no defined labels.

    This class indicates that no specific segmentation groups or labels are defined, and any label is valid.

    Attributes:
        __group_dictionary (dict[str, LabelGroup]): A dictionary with a single entry representing all labels as a group.
    """

    def __init__(self) -> None:
        self.__group_dictionary = {NO_GROUP_KEY: _LabelGroupAny()}

    def has_defined_labels_for(
        self, arr: np.ndarray | list[int], raise_error: bool = False
    ):
        return True

    def __str__(self) -> str:
        text = "NoSegmentationClassGroups"
        return text

    def __contains__(self, item):
        return item in self.__group_dictionary

    def __getitem__(self, key):
        return self.__group_dictionary[key]

    def __iter__(self):
        yield from self.__group_dictionary

    def keys(self) -> list[str]:
        return list(self.__group_dictionary.keys())

    @property
    def labels(self):
        raise Exception(
            "_NoSegmentationClassGroups has no explicit definition of labels"
        )

    @classmethod
    def _yaml_repr(cls, node):
        return {}
