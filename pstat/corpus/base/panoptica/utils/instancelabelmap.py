import numpy as np


# Many-to-One Mapping
class InstanceLabelMap(object):
    """Creates a mapping between prediction labels and reference labels in a many-to-one relationship.

    This class allows mapping multiple prediction labels to a single reference label.
    It includes methods for adding new mappings, checking containment, retrieving
    predictions mapped to a reference, and exporting the mapping as a dictionary.

    Attributes:
        labelmap (dict[int, int]): Dictionary storing the prediction-to-reference label mappings.

    Methods:
        add_labelmap_entry(pred_labels, ref_label): Adds a new entry mapping prediction labels to a reference label.
        get_pred_labels_matched_to_ref(ref_label): Retrieves prediction labels mapped to a given reference label.
        contains_pred(pred_label): Checks if a prediction label exists in the map.
        contains_ref(ref_label): Checks if a reference label exists in the map.
        contains_and(pred_label, ref_label): Checks if both a prediction and a reference label are in the map.
        contains_or(pred_label, ref_label): Checks if either a prediction or reference label is in the map.
        get_one_to_one_dictionary(): Returns the labelmap dictionary for a one-to-one view.
    """

    labelmap: dict[int, int]

    def __init__(self) -> None:
        self.labelmap = {}

    def add_labelmap_entry(self, pred_labels: list[int] | int, ref_label: int):
        """Adds an entry that maps prediction labels to a single reference label.

        Args:
            pred_labels (list[int] | int): List of prediction labels or a single prediction label.
            ref_label (int): Reference label to map to.

        Raises:
            AssertionError: If `ref_label` is not an integer.
            AssertionError: If any `pred_labels` are not integers.
            Exception: If a prediction label is already mapped to a different reference label.
        """
        if not isinstance(pred_labels, list):
            pred_labels = [pred_labels]
        assert isinstance(ref_label, int), "add_labelmap_entry: got no int as ref_label"
        assert np.all(
            [isinstance(r, int) for r in pred_labels]
        ), "add_labelmap_entry: got no int as pred_label"
        for p in pred_labels:
            if p in self.labelmap and self.labelmap[p] != ref_label:
                raise Exception(
                    f"You are mapping a prediction label to a reference label that was already assigned differently, got {self.__str__} and you tried {pred_labels}, {ref_label}"
                )
            self.labelmap[p] = ref_label

    def get_pred_labels_matched_to_ref(self, ref_label: int):
        """Retrieves all prediction labels that map to a specified reference label.

        Args:
            ref_label (int): The reference label to search.

        Returns:
            list[int]: List of prediction labels mapped to `ref_label`.
        """
        return [k for k, v in self.labelmap.items() if v == ref_label]

    def contains_pred(self, pred_label: int):
        """Checks if a prediction label exists in the map.

        Args:
            pred_label (int): The prediction label to search.

        Returns:
            bool: True if `pred_label` is in `labelmap`, otherwise False.
        """
        return pred_label in self.labelmap

    def contains_ref(self, ref_label: int):
        """Checks if a reference label exists in the map.

        Args:
            ref_label (int): The reference label to search.

        Returns:
            bool: True if `ref_label` is in `labelmap` values, otherwise False.
        """
        return ref_label in self.labelmap.values()

    def contains_and(
        self, pred_label: int | None = None, ref_label: int | None = None
    ) -> bool:
        """Checks if both a prediction and a reference label are in the map.

        Args:
            pred_label (int | None): The prediction label to check.
            ref_label (int | None): The reference label to check.

        Returns:
            bool: True if both `pred_label` and `ref_label` are in the map; otherwise, False.
        """
        pred_in = True if pred_label is None else pred_label in self.labelmap
        ref_in = True if ref_label is None else ref_label in self.labelmap.values()
        return pred_in and ref_in

    def contains_or(
        self, pred_label: int | None = None, ref_label: int | None = None
    ) -> bool:
        """Checks if either a prediction or reference label is in the map.

        Args:
            pred_label (int | None): The prediction label to check.
            ref_label (int | None): The reference label to check.

        Returns:
            bool: True if either `pred_label` or `ref_label` are in the map; otherwise, False.
        """
        pred_in = True if pred_label is None else pred_label in self.labelmap
        ref_in = True if ref_label is None else ref_label in self.labelmap.values()
        return pred_in or ref_in

    def get_one_to_one_dictionary(self):
        """Returns a copy of the labelmap dictionary for a one-to-one view.

        Returns:
            dict[int, int]: The prediction-to-reference label mapping.
        """
        return self.labelmap

    def __str__(self) -> str:
        return str(
            list(
                [
                    str(tuple(k for k in self.labelmap.keys() if self.labelmap[k] == v))
                    + " -> "
                    + str(v)
                    for v in set(self.labelmap.values())
                ]
            )
        )

    def __repr__(self) -> str:
        return str(self)

    # Make all variables read-only!
    def __setattr__(self, attr, value):
        """Overrides attribute setting to make attributes read-only after initialization.

        Args:
            attr (str): Attribute name.
            value (Any): Attribute value.

        Raises:
            Exception: If trying to alter an existing attribute.
        """
        if hasattr(self, attr):
            raise Exception("Attempting to alter read-only value")

        self.__dict__[attr] = value
