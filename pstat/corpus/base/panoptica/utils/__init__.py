from panoptica.utils.numpy_utils import (
    _count_unique_without_zeros,
    _unique_without_zeros,
)
from panoptica.utils.processing_pair import (
    MatchedInstancePair,
    SemanticPair,
    UnmatchedInstancePair,
)
from panoptica.utils.instancelabelmap import InstanceLabelMap
from panoptica.utils.edge_case_handling import (
    EdgeCaseHandler,
    EdgeCaseResult,
    EdgeCaseZeroTP,
)

# from utils.constants import
from panoptica.utils.segmentation_class import (
    SegmentationClassGroups,
)
from panoptica.utils.label_group import LabelGroup, LabelMergeGroup
from panoptica.utils.parallel_processing import NonDaemonicPool
