import multiprocessing.pool
from multiprocessing import Pool, Process
from typing import Callable


class NoDaemonProcess(Process):
    """A subclass of `multiprocessing.Process` that overrides daemon behavior to always be non-daemonic.

    Useful for creating a process that allows child processes to spawn their own children,
    as daemonic processes in Python cannot create further subprocesses.

    Attributes:
        group (None): Reserved for future extension when using process groups.
        target (Callable[..., object] | None): The callable object to be invoked by the process.
        name (str | None): The name of the process, for identification.
        args (tuple): Arguments to pass to the `target` function.
        kwargs (dict): Keyword arguments to pass to the `target` function.
        daemon (bool | None): Indicates if the process is daemonic (overridden to always be False).
    """

    def __init__(
        self,
        group: None = None,
        target: Callable[..., object] | None = None,
        name: str | None = None,
        args=None,
        kwargs=None,
        *,
        daemon: bool | None = None,
    ) -> None:
        if kwargs is None:
            kwargs = {}
        if args is None:
            args = []
        super().__init__(None, target, name, args, kwargs, daemon=daemon)

    # make 'daemon' attribute always return False
    def _get_daemon(self):
        return False

    def _set_daemon(self, value):
        pass

    daemon = property(_get_daemon, _set_daemon)


# We sub-class multiprocessing.pool.Pool instead of multiprocessing.Pool
# because the latter is only a wrapper function, not a proper class.
class NonDaemonicPool(multiprocessing.pool.Pool):
    """A version of `multiprocessing.pool.Pool` using non-daemonic processes, allowing child processes to spawn their own children.

    This class creates a pool of worker processes using `NoDaemonProcess` for situations where nested child processes are needed.
    """

    Process = NoDaemonProcess
