import numpy as np
from panoptica.metrics import Metric
from panoptica.utils.constants import _Enum_Compare, auto
from panoptica.utils.config import SupportsConfig


class EdgeCaseResult(_Enum_Compare):
    """Enumeration of edge case values used for handling specific metric situations.

    This enum defines several common edge case values for handling zero-true-positive (zero-TP)
    situations in various metrics. The values include infinity, NaN, zero, one, and None.

    Attributes:
        INF: Represents infinity (`np.inf`).
        NAN: Represents not-a-number (`np.nan`).
        ZERO: Represents zero (0.0).
        ONE: Represents one (1.0).
        NONE: Represents a None value.

    Methods:
        value: Returns the value associated with the edge case.
        __call__(): Returns the numeric or None representation of the enum member.
    """

    INF = auto()  # np.inf
    NAN = auto()  # np.nan
    ZERO = auto()  # 0.0
    ONE = auto()  # 1.0
    NONE = auto()  # None

    @property
    def value(self):
        return self()

    def __call__(self):
        transfer_dict = {
            EdgeCaseResult.INF.name: np.inf,
            EdgeCaseResult.NAN.name: np.nan,
            EdgeCaseResult.ZERO.name: 0.0,
            EdgeCaseResult.ONE.name: 1.0,
            EdgeCaseResult.NONE.name: None,
        }
        if self.name in transfer_dict:
            return transfer_dict[self.name]
        raise KeyError(f"No defined value for EdgeCaseResult {str(self)}")


class EdgeCaseZeroTP(_Enum_Compare):
    """Enum defining scenarios that could produce zero true positives (zero-TP) in metrics.

    Attributes:
        NO_INSTANCES: No instances in both the prediction and reference.
        EMPTY_PRED: The prediction is empty.
        EMPTY_REF: The reference is empty.
        NORMAL: A typical scenario with non-zero instances.
    """

    NO_INSTANCES = auto()
    EMPTY_PRED = auto()
    EMPTY_REF = auto()
    NORMAL = auto()

    def __hash__(self) -> int:
        return self.value


class MetricZeroTPEdgeCaseHandling(SupportsConfig):
    """Handles zero-TP edge cases for metrics, mapping different zero-TP scenarios to specific results.

    Attributes:
        default_result (EdgeCaseResult | None): Default result if specific edge cases are not provided.
        no_instances_result (EdgeCaseResult | None): Result when no instances are present.
        empty_prediction_result (EdgeCaseResult | None): Result when prediction is empty.
        empty_reference_result (EdgeCaseResult | None): Result when reference is empty.
        normal (EdgeCaseResult | None): Result when a normal zero-TP scenario occurs.

    Methods:
        __call__(tp, num_pred_instances, num_ref_instances): Determines if an edge case is detected and returns its result.
        __eq__(value): Compares this handling object to another.
        __str__(): String representation of edge cases.
        _yaml_repr(cls, node): YAML representation for the edge case.
    """

    def __init__(
        self,
        default_result: EdgeCaseResult | None = None,
        no_instances_result: EdgeCaseResult | None = None,
        empty_prediction_result: EdgeCaseResult | None = None,
        empty_reference_result: EdgeCaseResult | None = None,
        normal: EdgeCaseResult | None = None,
    ) -> None:
        assert default_result is not None or (
            no_instances_result is not None
            and empty_prediction_result is not None
            and empty_reference_result is not None
            and normal is not None
        ), "default_result is None and the rest is not fully specified"

        self._default_result = default_result
        self._edgecase_dict: dict[EdgeCaseZeroTP, EdgeCaseResult] = {}
        self._edgecase_dict[EdgeCaseZeroTP.EMPTY_PRED] = (
            empty_prediction_result
            if empty_prediction_result is not None
            else default_result
        )
        self._edgecase_dict[EdgeCaseZeroTP.EMPTY_REF] = (
            empty_reference_result
            if empty_reference_result is not None
            else default_result
        )
        self._edgecase_dict[EdgeCaseZeroTP.NO_INSTANCES] = (
            no_instances_result if no_instances_result is not None else default_result
        )
        self._edgecase_dict[EdgeCaseZeroTP.NORMAL] = (
            normal if normal is not None else default_result
        )

    def __call__(
        self, tp: int, num_pred_instances, num_ref_instances
    ) -> tuple[bool, float | None]:
        if tp != 0:
            return False, EdgeCaseResult.NONE.value
        #
        elif num_pred_instances + num_ref_instances == 0:
            return True, self._edgecase_dict[EdgeCaseZeroTP.NO_INSTANCES].value
        elif num_ref_instances == 0:
            return True, self._edgecase_dict[EdgeCaseZeroTP.EMPTY_REF].value
        elif num_pred_instances == 0:
            return True, self._edgecase_dict[EdgeCaseZeroTP.EMPTY_PRED].value
        elif num_pred_instances > 0 and num_ref_instances > 0:
            return True, self._edgecase_dict[EdgeCaseZeroTP.NORMAL].value

        raise NotImplementedError(
            f"MetricZeroTPEdgeCaseHandling: couldn't handle case, got tp {tp}, n_pred_instances {num_pred_instances}, n_ref_instances {num_ref_instances}"
        )

    def __eq__(self, __value: object) -> bool:
        if isinstance(__value, MetricZeroTPEdgeCaseHandling):
            for s, k in self._edgecase_dict.items():
                if s not in __value._edgecase_dict or k != __value._edgecase_dict[s]:
                    return False
            return True
        return False

    def __str__(self) -> str:
        txt = ""
        for k, v in self._edgecase_dict.items():
            if v is not None:
                txt += str(k) + ": " + str(v) + "\n"
        return txt

    @classmethod
    def _yaml_repr(cls, node) -> dict:
        return {
            "no_instances_result": node._edgecase_dict[EdgeCaseZeroTP.NO_INSTANCES],
            "empty_prediction_result": node._edgecase_dict[EdgeCaseZeroTP.EMPTY_PRED],
            "empty_reference_result": node._edgecase_dict[EdgeCaseZeroTP.EMPTY_REF],
            "normal": node._edgecase_dict[EdgeCaseZeroTP.NORMAL],
        }


class EdgeCaseHandler(SupportsConfig):
    """Manages edge cases across multiple metrics, including standard deviation handling for empty lists.

    Attributes:
        listmetric_zeroTP_handling (dict): Dictionary mapping metrics to their zero-TP edge case handling.
        empty_list_std (EdgeCaseResult): Default edge case for handling standard deviation of empty lists.

    Methods:
        handle_zero_tp(metric, tp, num_pred_instances, num_ref_instances): Checks if an edge case exists and returns its result.
        listmetric_zeroTP_handling: Returns the edge case handling dictionary.
        get_metric_zero_tp_handle(metric): Returns the zero-TP handler for a specific metric.
        handle_empty_list_std(): Handles standard deviation of empty lists.
        _yaml_repr(cls, node): YAML representation of the handler.
    """

    def __init__(
        self,
        listmetric_zeroTP_handling: dict[Metric, MetricZeroTPEdgeCaseHandling] = {
            Metric.DSC: MetricZeroTPEdgeCaseHandling(
                no_instances_result=EdgeCaseResult.NAN,
                default_result=EdgeCaseResult.ZERO,
            ),
            Metric.clDSC: MetricZeroTPEdgeCaseHandling(
                no_instances_result=EdgeCaseResult.NAN,
                default_result=EdgeCaseResult.ZERO,
            ),
            Metric.IOU: MetricZeroTPEdgeCaseHandling(
                no_instances_result=EdgeCaseResult.NAN,
                empty_prediction_result=EdgeCaseResult.ZERO,
                default_result=EdgeCaseResult.ZERO,
            ),
            Metric.ASSD: MetricZeroTPEdgeCaseHandling(
                no_instances_result=EdgeCaseResult.NAN,
                default_result=EdgeCaseResult.INF,
            ),
            Metric.RVD: MetricZeroTPEdgeCaseHandling(
                no_instances_result=EdgeCaseResult.NAN,
                default_result=EdgeCaseResult.NAN,
            ),
        },
        empty_list_std: EdgeCaseResult = EdgeCaseResult.NAN,
    ) -> None:
        self.__listmetric_zeroTP_handling: dict[
            Metric, MetricZeroTPEdgeCaseHandling
        ] = listmetric_zeroTP_handling
        self.__empty_list_std: EdgeCaseResult = empty_list_std

    def handle_zero_tp(
        self,
        metric: Metric,
        tp: int,
        num_pred_instances: int,
        num_ref_instances: int,
    ) -> tuple[bool, float | None]:
        """_summary_

        Args:
            metric (Metric): _description_
            tp (int): _description_
            num_pred_instances (int): _description_
            num_ref_instances (int): _description_

        Raises:
            NotImplementedError: _description_

        Returns:
            tuple[bool, float | None]: if edge case, and its edge case value
        """
        if tp != 0:
            return False, EdgeCaseResult.NONE.value
        if metric not in self.__listmetric_zeroTP_handling:
            raise NotImplementedError(
                f"Metric {metric} encountered zero TP, but no edge handling available"
            )

        return self.__listmetric_zeroTP_handling[metric](
            tp=tp,
            num_pred_instances=num_pred_instances,
            num_ref_instances=num_ref_instances,
        )

    @property
    def listmetric_zeroTP_handling(self):
        return self.__listmetric_zeroTP_handling

    def get_metric_zero_tp_handle(self, metric: Metric):
        return self.__listmetric_zeroTP_handling[metric]

    def handle_empty_list_std(self) -> EdgeCaseResult | None:
        return self.__empty_list_std

    def __str__(self) -> str:
        txt = f"EdgeCaseHandler:\n - Standard Deviation of Empty = {self.__empty_list_std}"
        for k, v in self.__listmetric_zeroTP_handling.items():
            txt += f"\n- {k}: {str(v)}"
        return str(txt)

    @classmethod
    def _yaml_repr(cls, node) -> dict:
        return {
            "listmetric_zeroTP_handling": node.__listmetric_zeroTP_handling,
            "empty_list_std": node.__empty_list_std,
        }
