from abc import ABC

import numpy as np

from panoptica._functionals import _get_paired_crop
from panoptica.utils import _count_unique_without_zeros, _unique_without_zeros
from panoptica.utils.constants import _Enum_Compare
from dataclasses import dataclass
from panoptica.metrics import Metric

uint_type: type = np.unsignedinteger
int_type: type = np.integer


class _ProcessingPair(ABC):
    """Represents a pair of processing arrays, typically prediction and reference arrays.

    This base class provides core functionality for processing and comparing prediction
    and reference data arrays. Each instance contains two arrays and supports cropping and
    data integrity checks.

    Attributes:
        n_dim (int): The number of dimensions in the reference array.
        crop (tuple[slice, ...] | None): The crop region applied to both arrays, if any.
        is_cropped (bool): Indicates whether the arrays have been cropped.
        uncropped_shape (tuple[int, ...]): The original shape of the arrays before cropping.
    """

    _prediction_arr: np.ndarray
    _reference_arr: np.ndarray
    # unique labels without zero
    _ref_labels: tuple[int, ...]
    _pred_labels: tuple[int, ...]
    n_dim: int

    def __init__(
        self, prediction_arr: np.ndarray, reference_arr: np.ndarray, dtype: type | None
    ) -> None:
        """Initializes the processing pair with prediction and reference arrays.

        Args:
            prediction_arr (np.ndarray): Numpy array of prediction labels.
            reference_arr (np.ndarray): Numpy array of reference labels.
            dtype (type | None): The expected datatype of arrays. If None, no datatype check is performed.
        """
        _check_array_integrity(prediction_arr, reference_arr, dtype=dtype)
        self._prediction_arr = prediction_arr
        self._reference_arr = reference_arr
        self.dtype = dtype
        self.n_dim = reference_arr.ndim
        self._ref_labels: tuple[int, ...] = tuple(
            _unique_without_zeros(reference_arr)
        )  # type:ignore
        self._pred_labels: tuple[int, ...] = tuple(
            _unique_without_zeros(prediction_arr)
        )  # type:ignore
        self.crop: tuple[slice, ...] = None
        self.is_cropped: bool = False
        self.uncropped_shape: tuple[int, ...] = reference_arr.shape

    def crop_data(self, verbose: bool = False):
        """Crops prediction and reference arrays to non-zero regions.

        Args:
            verbose (bool, optional): If True, prints cropping details. Defaults to False.
        """
        if self.is_cropped:
            return
        if self.crop is None:
            self.uncropped_shape = self._prediction_arr.shape
            self.crop = _get_paired_crop(
                self._prediction_arr,
                self._reference_arr,
            )

        self._prediction_arr = self._prediction_arr[self.crop]
        self._reference_arr = self._reference_arr[self.crop]
        (
            print(
                f"-- Cropped from {self.uncropped_shape} to {self._prediction_arr.shape}"
            )
            if verbose
            else None
        )
        self.is_cropped = True

    def uncrop_data(self, verbose: bool = False):
        """Restores the arrays to their original, uncropped shape.

        Args:
            verbose (bool, optional): If True, prints uncropping details. Defaults to False.
        """
        if self.is_cropped == False:
            return
        assert (
            self.uncropped_shape is not None
        ), "Calling uncrop_data() without having cropped first"
        prediction_arr = np.zeros(self.uncropped_shape)
        prediction_arr[self.crop] = self._prediction_arr
        self._prediction_arr = prediction_arr

        reference_arr = np.zeros(self.uncropped_shape)
        reference_arr[self.crop] = self._reference_arr
        (
            print(
                f"-- Uncropped from {self._reference_arr.shape} to {self.uncropped_shape}"
            )
            if verbose
            else None
        )
        self._reference_arr = reference_arr
        self.is_cropped = False

    def set_dtype(self, type):
        """Sets the data type for both prediction and reference arrays.

        Args:
            dtype (type): Expected integer type for the arrays.
        """
        assert np.issubdtype(
            type, int_type
        ), "set_dtype: tried to set dtype to something other than integers"
        self._prediction_arr = self._prediction_arr.astype(type)
        self._reference_arr = self._reference_arr.astype(type)

    @property
    def prediction_arr(self):
        return self._prediction_arr

    @property
    def reference_arr(self):
        return self._reference_arr

    @property
    def pred_labels(self):
        return self._pred_labels

    @property
    def ref_labels(self):
        return self._ref_labels

    def copy(self):
        """
        Creates an exact copy of this object
        """
        return type(self)(
            prediction_arr=self._prediction_arr,
            reference_arr=self._reference_arr,
        )  # type:ignore

    # Make all variables read-only!
    # def __setattr__(self, attr, value):
    #    if hasattr(self, attr):
    #        raise Exception("Attempting to alter read-only value")


#
#        self.__dict__[attr] = value


class _ProcessingPairInstanced(_ProcessingPair):
    """Represents a processing pair with labeled instances, including unique label counts.

    This subclass tracks additional details about the number of unique instances in each array.

    Attributes:
        n_prediction_instance (int): Number of unique prediction instances.
        n_reference_instance (int): Number of unique reference instances.
    """

    n_prediction_instance: int
    n_reference_instance: int

    def __init__(
        self,
        prediction_arr: np.ndarray,
        reference_arr: np.ndarray,
        dtype: type | None,
        n_prediction_instance: int | None = None,
        n_reference_instance: int | None = None,
    ) -> None:
        """Initializes a processing pair for instances.

        Args:
            prediction_arr (np.ndarray): Array of predicted instance labels.
            reference_arr (np.ndarray): Array of reference instance labels.
            dtype (type | None): Expected data type of the arrays.
            n_prediction_instance (int | None, optional): Pre-calculated number of prediction instances.
            n_reference_instance (int | None, optional): Pre-calculated number of reference instances.
        """
        super().__init__(prediction_arr, reference_arr, dtype)
        if n_prediction_instance is None:
            self.n_prediction_instance = _count_unique_without_zeros(prediction_arr)

        else:
            self.n_prediction_instance = n_prediction_instance
        if n_reference_instance is None:
            self.n_reference_instance = _count_unique_without_zeros(reference_arr)
        else:
            self.n_reference_instance = n_reference_instance

    def copy(self):
        """
        Creates an exact copy of this object
        """
        return type(self)(
            prediction_arr=self._prediction_arr,
            reference_arr=self._reference_arr,
            n_prediction_instance=self.n_prediction_instance,
            n_reference_instance=self.n_reference_instance,
        )  # type:ignore


def _check_array_integrity(
    prediction_arr: np.ndarray, reference_arr: np.ndarray, dtype: type | None = None
):
    """Validates integrity between two arrays, checking shape, dtype, and consistency with `dtype`.

    Args:
        prediction_arr (np.ndarray): The array to be validated.
        reference_arr (np.ndarray): The reference array for comparison.
        dtype (type | None): Expected type of the arrays. If None, dtype validation is skipped.

    Raises:
        AssertionError: If validation fails in any of the following cases:
            - Arrays are not numpy arrays.
            - Shapes of both arrays are not identical.
            - Data types of both arrays do not match.
            - Dtype mismatch when specified.

    Example:
    >>> _check_array_integrity(np.array([1, 2, 3]), np.array([4, 5, 6]), dtype=int)
    """
    assert isinstance(prediction_arr, np.ndarray) and isinstance(
        reference_arr, np.ndarray
    ), "prediction and/or reference are not numpy arrays"
    assert (
        prediction_arr.shape == reference_arr.shape
    ), f"shape mismatch, got {prediction_arr.shape},{reference_arr.shape}"
    assert (
        prediction_arr.dtype == reference_arr.dtype
    ), f"dtype mismatch, got {prediction_arr.dtype},{reference_arr.dtype}"
    if dtype is not None:
        assert (
            np.issubdtype(prediction_arr.dtype, dtype)
            and np.issubdtype(reference_arr.dtype, dtype)
            # prediction_arr.dtype == dtype and reference_arr.dtype == dtype
        ), f"prediction and/or reference are not dtype {dtype}, got {prediction_arr.dtype} and {reference_arr.dtype}"


class SemanticPair(_ProcessingPair):
    """Represents a semantic processing pair with integer-type arrays for label analysis.

    This class is tailored to scenarios where arrays contain semantic labels rather than instance IDs.
    """

    def __init__(self, prediction_arr: np.ndarray, reference_arr: np.ndarray) -> None:
        super().__init__(prediction_arr, reference_arr, dtype=int_type)


class UnmatchedInstancePair(_ProcessingPairInstanced):
    """
    A Processing pair that contain Unmatched Instance Maps
    Can be of any unsigned (but matching) integer type
    """

    def __init__(
        self,
        prediction_arr: np.ndarray,
        reference_arr: np.ndarray,
        n_prediction_instance: int | None = None,
        n_reference_instance: int | None = None,
    ) -> None:
        super().__init__(
            prediction_arr,
            reference_arr,
            uint_type,
            n_prediction_instance,
            n_reference_instance,
        )  # type:ignore


class MatchedInstancePair(_ProcessingPairInstanced):
    """Represents a matched processing pair for instance maps, handling matched and unmatched labels.

    This class tracks both matched instances and any unmatched labels between prediction
    and reference arrays.

    Attributes:
        missed_reference_labels (list[int]): Reference labels with no matching prediction.
        missed_prediction_labels (list[int]): Prediction labels with no matching reference.
        matched_instances (list[int]): Labels matched between prediction and reference arrays.
    """

    missed_reference_labels: list[int]
    missed_prediction_labels: list[int]
    matched_instances: list[int]

    def __init__(
        self,
        prediction_arr: np.ndarray,
        reference_arr: np.ndarray,
        missed_reference_labels: list[int] | None = None,
        missed_prediction_labels: list[int] | None = None,
        matched_instances: list[int] | None = None,
        n_prediction_instance: int | None = None,
        n_reference_instance: int | None = None,
    ) -> None:
        """Initializes a MatchedInstancePair

        Args:
            prediction_arr (np.ndarray): Numpy array containing the prediction matched instance labels
            reference_arr (np.ndarray): Numpy array containing the reference matched instance labels
            missed_reference_labels (list[int] | None, optional): List of unmatched reference labels. Defaults to None.
            missed_prediction_labels (list[int] | None, optional): List of unmatched prediction labels. Defaults to None.
            matched_instances (int | None, optional): matched instances labels, i.e. unique matched labels in both maps. Defaults to None.
            n_prediction_instance (int | None, optional): Number of prediction instances. Defaults to None.
            n_reference_instance (int | None, optional): Number of reference instances. Defaults to None.

            For each argument: If none, will calculate on initialization.
        """
        super().__init__(
            prediction_arr,
            reference_arr,
            uint_type,
            n_prediction_instance,
            n_reference_instance,
        )  # type:ignore
        if matched_instances is None:
            matched_instances = [i for i in self._pred_labels if i in self._ref_labels]
        self.matched_instances = matched_instances

        if missed_reference_labels is None:
            missed_reference_labels = list(
                [i for i in self._ref_labels if i not in self._pred_labels]
            )
        self.missed_reference_labels = missed_reference_labels

        if missed_prediction_labels is None:
            missed_prediction_labels = list(
                [i for i in self._pred_labels if i not in self._ref_labels]
            )
        self.missed_prediction_labels = missed_prediction_labels

    @property
    def n_matched_instances(self):
        return len(self.matched_instances)

    def copy(self):
        """
        Creates an exact copy of this object
        """
        return type(self)(
            prediction_arr=self._prediction_arr.copy(),
            reference_arr=self._reference_arr.copy(),
            n_prediction_instance=self.n_prediction_instance,
            n_reference_instance=self.n_reference_instance,
            missed_reference_labels=self.missed_reference_labels,
            missed_prediction_labels=self.missed_prediction_labels,
            matched_instances=self.matched_instances,
        )


@dataclass
class EvaluateInstancePair:
    """Represents an evaluation of instance segmentation results, comparing reference and prediction data.

    This class is used to store and evaluate metrics for instance segmentation, tracking the number of instances
    and true positives (tp) alongside calculated metrics.

    Attributes:
        reference_arr (np.ndarray): Array containing reference instance labels.
        prediction_arr (np.ndarray): Array containing predicted instance labels.
        num_pred_instances (int): The number of unique instances in the prediction array.
        num_ref_instances (int): The number of unique instances in the reference array.
        tp (int): The number of true positive matches between predicted and reference instances.
        list_metrics (dict[Metric, list[float]]): Dictionary of metric calculations, where each key is a `Metric`
            object, and each value is a list of metric scores (floats).
    """

    reference_arr: np.ndarray
    prediction_arr: np.ndarray
    num_pred_instances: int
    num_ref_instances: int
    tp: int
    list_metrics: dict[Metric, list[float]]


class InputType(_Enum_Compare):
    """Defines the types of input processing pairs available for evaluation.

    This enumeration provides different processing classes for handling various instance segmentation scenarios,
    allowing flexible instantiation of processing pairs based on the desired comparison type.

    Attributes:
        SEMANTIC (SemanticPair): Processes semantic labels, intended for cases without instances.
        UNMATCHED_INSTANCE (UnmatchedInstancePair): Processes instance maps without requiring label matches.
        MATCHED_INSTANCE (MatchedInstancePair): Processes instance maps with label matching between prediction
            and reference.

    Methods:
        __call__(self, prediction_arr: np.ndarray, reference_arr: np.ndarray) -> _ProcessingPair:
            Creates a processing pair based on the specified `InputType`, using the provided prediction
            and reference arrays.

    Example:
        >>> input_type = InputType.MATCHED_INSTANCE
        >>> processing_pair = input_type(prediction_arr, reference_arr)
    """

    SEMANTIC = SemanticPair
    UNMATCHED_INSTANCE = UnmatchedInstancePair
    MATCHED_INSTANCE = MatchedInstancePair

    def __call__(
        self, prediction_arr: np.ndarray, reference_arr: np.ndarray
    ) -> _ProcessingPair:
        return self.value(prediction_arr, reference_arr)


class IntermediateStepsData:
    """Manages intermediate data steps for a processing pipeline, storing and retrieving processing states.

    This class enables step-by-step tracking of data transformations during processing.

    Attributes:
        original_input (_ProcessingPair | None): The original input data before processing steps.
        _intermediatesteps (dict[str, _ProcessingPair]): Dictionary of intermediate processing steps.
    """

    def __init__(self, original_input: _ProcessingPair | None):
        self._original_input = original_input
        self._intermediatesteps: dict[str, _ProcessingPair] = {}

    def add_intermediate_arr_data(
        self, processing_pair: _ProcessingPair, inputtype: InputType
    ):
        type_name = inputtype.name
        self.add_intermediate_data(type_name, processing_pair)

    def add_intermediate_data(self, key, value):
        assert key not in self._intermediatesteps, f"key {key} already added"
        self._intermediatesteps[key] = value

    @property
    def original_prediction_arr(self):
        assert (
            self._original_input is not None
        ), "Original prediction_arr is None, there are no intermediate steps"
        return self._original_input.prediction_arr

    @property
    def original_reference_arr(self):
        assert (
            self._original_input is not None
        ), "Original reference_arr is None, there are no intermediate steps"
        return self._original_input.reference_arr

    def prediction_arr(self, inputtype: InputType):
        type_name = inputtype.name
        procpair = self[type_name]
        assert isinstance(
            procpair, _ProcessingPair
        ), f"step {type_name} is not a processing pair, error"
        return procpair.prediction_arr

    def reference_arr(self, inputtype: InputType):
        type_name = inputtype.name
        procpair = self[type_name]
        assert isinstance(
            procpair, _ProcessingPair
        ), f"step {type_name} is not a processing pair, error"
        return procpair.reference_arr

    def __getitem__(self, key):
        assert (
            key in self._intermediatesteps
        ), f"key {key} not in intermediate steps, maybe the step was skipped?"
        return self._intermediatesteps[key]
