import numpy as np
from panoptica.utils.config import SupportsConfig

#


class LabelGroup(SupportsConfig):
    """Defines a group of labels that semantically belong together for segmentation purposes.

    Groups of labels define label sets that can be matched with each other.
    For example, labels might represent different parts of a segmented object, and only those within the group are eligible for matching.

    Attributes:
        value_labels (list[int]): List of integer labels representing segmentation group labels.
        single_instance (bool): If True, the group represents a single instance without matching threshold consideration.
    """

    def __init__(
        self,
        value_labels: list[int] | int,
        single_instance: bool = False,
    ) -> None:
        """Initializes a LabelGroup with specified labels and single instance setting.

        Args:
            value_labels (list[int] | int): Labels in the prediction and reference mask for this group.
            single_instance (bool, optional): If True, ignores matching threshold as only one instance exists. Defaults to False.

        Raises:
            AssertionError: If `value_labels` is empty or if labels are not positive integers.
            AssertionError: If `single_instance` is True but more than one label is provided.
        """
        if isinstance(value_labels, int):
            value_labels = [value_labels]

        # sorted: the iteration order of a set depends on how it was built, a saved and reloaded
        # group would otherwise list (and save) its labels in a different order
        value_labels = sorted(set(value_labels))

        assert (
            len(value_labels) >= 1
        ), f"You tried to define a LabelGroup without any specified labels, got {value_labels}"
        self.__value_labels = value_labels
        assert np.all(
            [v > 0 for v in self.__value_labels]
        ), f"Given value labels are not >0, got {value_labels}"
        self.__single_instance = single_instance
        if self.__single_instance:
            assert (
                len(value_labels) == 1
            ), f"single_instance set to True, but got more than one label for this group, got {value_labels}"

        LabelGroup._register_permanently()

    @property
    def value_labels(self) -> list[int]:
        """List of integer labels for this segmentation group."""
        return self.__value_labels

    @property
    def single_instance(self) -> bool:
        """Indicates if this group is treated as a single instance."""
        return self.__single_instance

    def extract_label(
        self,
        array: np.ndarray,
        set_to_binary: bool = False,
    ):
        """Extracts an array of the labels specific to this segmentation group.

        Args:
            array (np.ndarray): The array to filter for segmentation group labels.
            set_to_binary (bool, optional): If True, outputs a binary array. Defaults to False.

        Returns:
            np.ndarray: An array with only the labels of this segmentation group.
        """
        array = array.copy()
        array[np.isin(array, self.value_labels, invert=True)] = 0
        if set_to_binary:
            array[array != 0] = 1
        return array

    def __call__(
        self,
        array: np.ndarray,
    ) -> np.ndarray:
        """Extracts labels from an array for this group when the instance is called.

        Args:
            array (np.ndarray): Array to filter for segmentation group labels.

        Returns:
            np.ndarray: Array containing only the labels for this segmentation group.
        """
        return self.extract_label(array, set_to_binary=False)

    def __str__(self) -> str:
        return f"LabelGroup {self.value_labels}, single_instance={self.single_instance}"

    def __repr__(self) -> str:
        return str(self)

    @classmethod
    def _yaml_repr(cls, node):
        return {
            "value_labels": node.value_labels,
            "single_instance": node.single_instance,
        }


class LabelMergeGroup(LabelGroup):
    """Defines a group of labels that will be merged into a single label when extracted.

    Inherits from LabelGroup and sets extracted labels to binary format.

    Methods:
        __call__(array): Extracts the label group as a binary array.
    """

    def __init__(
        self, value_labels: list[int] | int, single_instance: bool = False
    ) -> None:
        super().__init__(value_labels, single_instance)

    def __call__(
        self,
        array: np.ndarray,
    ) -> np.ndarray:
        """Extracts the labels of this group as a binary array.

        Args:
            array (np.ndarray): Array to filter for segmentation group labels.

        Returns:
            np.ndarray: Binary array representing presence or absence of group labels.
        """
        return self.extract_label(array, set_to_binary=True)

    def __str__(self) -> str:
        return f"LabelMergeGroup {self.value_labels} -> ONE, single_instance={self.single_instance}"


class _LabelGroupAny(LabelGroup):
    """Represents a group that includes all labels in the array with no specific segmentation constraints.

    Used to represent a group that does not restrict labels.

    Methods:
        __call__(array, set_to_binary): Returns the unfiltered array.
    """

    def __init__(self) -> None:
        pass

    @property
    def value_labels(self) -> list[int]:
        raise AssertionError("LabelGroupAny has no value_labels, it is all labels")

    @property
    def single_instance(self) -> bool:
        return False

    def __call__(
        self,
        array: np.ndarray,
        set_to_binary: bool = False,
    ) -> np.ndarray:
        """Returns the original array, unfiltered.

        Args:
            array (np.ndarray): The original array to return.
            set_to_binary (bool, optional): Ignored in this implementation.

        Returns:
            np.ndarray: The original, unmodified array.
        """
        array = array.copy()
        return array

    def __str__(self) -> str:
        return f"LabelGroupAny"

    def __repr__(self) -> str:
        return str(self)

    @classmethod
    def _yaml_repr(cls, node):
        return {}
