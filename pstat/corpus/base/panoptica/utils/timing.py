import time


def measure_time(func):
    """Decorator to measure the time it takes to execute a function."""

    def wrapper(*args, **kwargs):
        start_time = time.time()
        result = func(*args, **kwargs)
        end_time = time.time()
        elapsed_time = end_time - start_time
        if hasattr(kwargs, "verbose") and getattr(kwargs, "verbose"):
            print(f"-- {func.__name__} took {elapsed_time} seconds to execute.")
        return result

    return wrapper
