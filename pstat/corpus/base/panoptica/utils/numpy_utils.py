import itertools
import warnings

import numpy as np


def _unique_without_zeros(arr: np.ndarray) -> np.ndarray:
    """
    Get unique non-zero values from a NumPy array.

    Parameters:
        arr (np.ndarray): Input NumPy array.

    Returns:
        np.ndarray: Unique non-zero values from the input array.

    Issues a warning if negative values are present.
    """
    if np.any(arr < 0):
        warnings.warn("Negative values are present in the input array.", UserWarning)

    return np.unique(arr[arr != 0])


def _count_unique_without_zeros(arr: np.ndarray) -> int:
    """
    Count the number of unique elements in the input NumPy array, excluding zeros.

    Args:
        arr (np.ndarray): Input array.

    Returns:
        int: Number of unique elements excluding zeros.
    """
    if np.any(arr < 0):
        warnings.warn("Negative values are present in the input array.", UserWarning)

    return len(_unique_without_zeros(arr))


def _get_smallest_fitting_uint(max_value: int) -> type:
    """
    Determine the smallest unsigned integer type that can accommodate the given maximum value.

    Args:
        max_value (int): The maximum value to be accommodated.

    Returns:
        type: The NumPy data type (e.g., np.uint8, np.uint16, np.uint32, np.uint64).

    Example:
    >>> _get_smallest_fitting_uint(255)
    <class 'numpy.uint8'>
    """
    if max_value < 256:
        dtype = np.uint8
    elif max_value < 65536:
        dtype = np.uint16
    elif max_value < 4294967295:
        dtype = np.uint32
    else:
        dtype = np.uint64
    return dtype


def _get_bbox_nd(
    img: np.ndarray,
    px_dist: int | tuple[int, ...] = 0,
) -> tuple[slice, ...]:
    """calculates a bounding box in n dimensions given a image (factor ~2 times faster than compute_crop_slice)

    Args:
        img: input array
        px_dist: int | tuple[int]: dist (int): The amount of padding to be added to the cropped image. If int, will apply the same padding to each dim. Default value is 0.

    Returns:
        list of boundary coordinates [x_min, x_max, y_min, y_max, z_min, z_max]
    """
    assert img is not None, "bbox_nd: received None as image"
    assert np.count_nonzero(img) > 0, "bbox_nd: img is empty, cannot calculate a bbox"
    N = img.ndim
    shp = img.shape
    if isinstance(px_dist, int):
        px_dist = np.ones(N, dtype=np.uint8) * px_dist
    assert (
        len(px_dist) == N
    ), f"dimension mismatch, got img shape {shp} and px_dist {px_dist}"

    out = []
    for ax in itertools.combinations(reversed(range(N)), N - 1):
        nonzero = np.any(a=img, axis=ax)
        out.extend(np.where(nonzero)[0][[0, -1]])
    out = tuple(
        slice(
            max(out[i] - px_dist[i // 2], 0),
            min(out[i + 1] + px_dist[i // 2], shp[i // 2]) + 1,
        )
        for i in range(0, len(out), 2)
    )
    return out
