import os
import warnings
from itertools import chain
from pathlib import Path


def search_path(
    basepath: str | Path, query: str, verbose: bool = False, suppress: bool = False
) -> list[Path]:
    """Searches from basepath with query
    Args:
        basepath: ground path to look into
        query: search query, can contain wildcards like *.npz or **/*.npz
        verbose:
        suppress: if true, will not throwing warnings if nothing is found

    Returns:
        All found paths
    """
    basepath = str(basepath)
    assert os.path.exists(
        basepath
    ), f"basepath for search_path() doesnt exist, got {basepath}"
    if not basepath.endswith("/"):
        basepath += "/"
    print(f"search_path: in {basepath}{query}") if verbose else None
    paths = sorted(list(chain(list(Path(f"{basepath}").glob(f"{query}")))))
    if len(paths) == 0 and not suppress:
        warnings.warn(f"did not find any paths in {basepath}{query}", UserWarning)
    return paths


def config_dir_by_name(name: str) -> tuple[Path, str]:
    directory = Path(
        __file__.replace("////", "/")
        .replace("\\\\", "/")
        .replace("//", "/")
        .replace("\\", "/")
    ).parent.parent
    if not name.endswith(".yaml"):
        name += ".yaml"
    return directory, name


# Find config path
def config_by_name(name: str) -> Path:
    directory, name = config_dir_by_name(name)
    p = search_path(directory, query=f"**/{name}", suppress=True)
    assert (
        len(p) == 1
    ), f"Did not find exactly one config yaml with name {name} in directory {directory}, got {p}"
    return p[0]
