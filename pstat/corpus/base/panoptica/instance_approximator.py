from abc import ABC, abstractmethod, ABCMeta

import numpy as np

from panoptica.utils.constants import CCABackend
from panoptica._functionals import _connected_components
from panoptica.utils.numpy_utils import _get_smallest_fitting_uint
from panoptica.utils.processing_pair import (
    MatchedInstancePair,
    SemanticPair,
    UnmatchedInstancePair,
)
from panoptica.utils.config import SupportsConfig


class InstanceApproximator(SupportsConfig, metaclass=ABCMeta):
    """
    Abstract base class for instance approximation algorithms in panoptic segmentation evaluation.

    Attributes:
        None

    Methods:
        _approximate_instances(self, semantic_pair: SemanticPair, **kwargs) -> UnmatchedInstancePair | MatchedInstancePair:
            Abstract method to be implemented by subclasses for instance approximation.

        approximate_instances(self, semantic_pair: SemanticPair, **kwargs) -> UnmatchedInstancePair | MatchedInstancePair:
            Perform instance approximation on the given SemanticPair.

    Raises:
        AssertionError: If there are negative values in the semantic maps, which is not allowed.

    Example:
    >>> class CustomInstanceApproximator(InstanceApproximator):
    ...     def _approximate_instances(self, semantic_pair: SemanticPair, **kwargs) -> UnmatchedInstancePair | MatchedInstancePair:
    ...         # Implementation of instance approximation algorithm
    ...         pass
    ...
    >>> approximator = CustomInstanceApproximator()
    >>> semantic_pair = SemanticPair(...)
    >>> result = approximator.approximate_instances(semantic_pair)
    """

    @abstractmethod
    def _approximate_instances(
        self, semantic_pair: SemanticPair, **kwargs
    ) -> UnmatchedInstancePair | MatchedInstancePair:
        """
        Abstract method to be implemented by subclasses for instance approximation.

        Args:
            semantic_pair (SemanticPair): The semantic pair to be approximated.
            **kwargs: Additional keyword arguments.

        Returns:
            UnmatchedInstancePair | MatchedInstancePair: The result of the instance approximation.
        """
        pass

    def _yaml_repr(cls, node) -> dict:
        raise NotImplementedError(
            f"Tried to get yaml representation of abstract class {cls.__name__}"
        )
        return {}

    def approximate_instances(
        self, semantic_pair: SemanticPair, verbose: bool = False, **kwargs
    ) -> UnmatchedInstancePair | MatchedInstancePair:
        """
        Perform instance approximation on the given SemanticPair.

        Args:
            semantic_pair (SemanticPair): The semantic pair to be approximated.
            **kwargs: Additional keyword arguments.

        Returns:
            UnmatchedInstancePair | MatchedInstancePair: The result of the instance approximation.

        Raises:
            AssertionError: If there are negative values in the semantic maps, which is not allowed.
        """
        # Check validity
        pred_labels, ref_labels = semantic_pair._pred_labels, semantic_pair._ref_labels
        pred_label_range = (
            (np.min(pred_labels), np.max(pred_labels))
            if len(pred_labels) > 0
            else (0, 0)
        )
        ref_label_range = (
            (np.min(ref_labels), np.max(ref_labels)) if len(ref_labels) > 0 else (0, 0)
        )
        #
        min_value = min(np.min(pred_label_range[0]), np.min(ref_label_range[0]))
        assert (
            min_value >= 0
        ), "There are negative values in the semantic maps. This is not allowed!"
        # Set dtype to smalles fitting uint
        max_value = max(np.max(pred_label_range[1]), np.max(ref_label_range[1]))
        dtype = _get_smallest_fitting_uint(max_value)
        semantic_pair.set_dtype(dtype)
        print(f"-- Set dtype to {dtype}") if verbose else None

        # Call algorithm
        instance_pair = self._approximate_instances(semantic_pair, **kwargs)
        return instance_pair


class ConnectedComponentsInstanceApproximator(InstanceApproximator):
    """
    Instance approximator using connected components algorithm for panoptic segmentation evaluation.

    Attributes:
        cca_backend (CCABackend): The connected components algorithm backend.

    Methods:
        __init__(self, cca_backend: CCABackend) -> None:
            Initialize the ConnectedComponentsInstanceApproximator.
        _approximate_instances(self, semantic_pair: SemanticPair, **kwargs) -> UnmatchedInstancePair:
            Approximate instances using the connected components algorithm.

    Example:
    >>> cca_approximator = ConnectedComponentsInstanceApproximator(cca_backend=CCABackend.cc3d)
    >>> semantic_pair = SemanticPair(...)
    >>> result = cca_approximator.approximate_instances(semantic_pair)
    """

    def __init__(self, cca_backend: CCABackend | None = None) -> None:
        """
        Initialize the ConnectedComponentsInstanceApproximator.

        Args:
            cca_backend (CCABackend): The connected components algorithm backend. If None, will use cc3d for 3D and scipy for 1D and 2D inputs.
        """
        self.cca_backend = cca_backend

    def _approximate_instances(
        self, semantic_pair: SemanticPair, **kwargs
    ) -> UnmatchedInstancePair:
        """
        Approximate instances using the connected components algorithm.

        Args:
            semantic_pair (SemanticPair): The semantic pair to be approximated.
            **kwargs: Additional keyword arguments.

        Returns:
            UnmatchedInstancePair: The result of the instance approximation.
        """
        cca_backend = self.cca_backend
        if cca_backend is None:
            cca_backend = (
                CCABackend.cc3d if semantic_pair.n_dim >= 3 else CCABackend.scipy
            )
        assert cca_backend is not None

        empty_prediction = len(semantic_pair._pred_labels) == 0
        empty_reference = len(semantic_pair._ref_labels) == 0
        prediction_arr, n_prediction_instance = (
            _connected_components(semantic_pair._prediction_arr, cca_backend)
            if not empty_prediction
            else (semantic_pair._prediction_arr, 0)
        )
        reference_arr, n_reference_instance = (
            _connected_components(semantic_pair._reference_arr, cca_backend)
            if not empty_reference
            else (semantic_pair._reference_arr, 0)
        )

        dtype = _get_smallest_fitting_uint(
            max(prediction_arr.max(), reference_arr.max())
        )

        return UnmatchedInstancePair(
            prediction_arr=prediction_arr.astype(dtype),
            reference_arr=reference_arr.astype(dtype),
            n_prediction_instance=n_prediction_instance,
            n_reference_instance=n_reference_instance,
        )

    @classmethod
    def _yaml_repr(cls, node) -> dict:
        return {"cca_backend": node.cca_backend}
