from panoptica.instance_approximator import (
    ConnectedComponentsInstanceApproximator,
    CCABackend,
)
from panoptica.instance_matcher import NaiveThresholdMatching
from panoptica.panoptica_statistics import Panoptica_Statistic, ValueSummary
from panoptica.panoptica_aggregator import Panoptica_Aggregator
from panoptica.panoptica_evaluator import Panoptica_Evaluator
from panoptica.panoptica_result import PanopticaResult
from panoptica.utils.processing_pair import (
    InputType,
    SemanticPair,
    UnmatchedInstancePair,
    MatchedInstancePair,
)
from panoptica.metrics import Metric, MetricMode, MetricType
