from panoptica.metrics.assd import (
    _compute_instance_average_symmetric_surface_distance,
    _average_symmetric_surface_distance,
)
from panoptica.metrics.cldice import (
    _compute_centerline_dice,
    _compute_centerline_dice_coefficient,
)
from panoptica.metrics.dice import (
    _compute_dice_coefficient,
    _compute_instance_volumetric_dice,
)

from panoptica.metrics.relative_volume_difference import (
    _compute_instance_relative_volume_difference,
    _compute_relative_volume_difference,
)
from panoptica.metrics.iou import _compute_instance_iou, _compute_iou
from panoptica.metrics.metrics import (
    Evaluation_List_Metric,
    Evaluation_Metric,
    Metric,
    MetricCouldNotBeComputedException,
    MetricMode,
    MetricType,
    _Metric,
)
