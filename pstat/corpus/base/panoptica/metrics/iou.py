import numpy as np


def _compute_instance_iou(
    reference_arr: np.ndarray,
    prediction_arr: np.ndarray,
    ref_instance_idx: int | None = None,
    pred_instance_idx: int | None = None,
) -> float:
    """
    Compute Intersection over Union (IoU) between a specific pair of reference and prediction instances.

    Args:
        ref_labels (np.ndarray): Reference instance labels.
        pred_labels (np.ndarray): Prediction instance labels.
        ref_instance_idx (int): Index of the reference instance.
        pred_instance_idx (int): Index of the prediction instance.

    Returns:
        float: IoU between the specified instances.
    """
    if ref_instance_idx is None and pred_instance_idx is None:
        return _compute_iou(
            reference_arr=reference_arr,
            prediction_arr=prediction_arr,
        )
    ref_instance_mask = reference_arr == ref_instance_idx
    pred_instance_mask = prediction_arr == pred_instance_idx
    return _compute_iou(ref_instance_mask, pred_instance_mask)


def _compute_iou(
    reference_arr: np.ndarray,
    prediction_arr: np.ndarray,
    *args,
) -> float:
    """
    Compute Intersection over Union (IoU) between two masks.

    Args:
        reference (np.ndarray): Reference mask.
        prediction (np.ndarray): Prediction mask.

    Returns:
        float: IoU between the two masks. A value between 0 and 1, where higher values
        indicate better overlap and similarity between masks.
    """
    intersection = np.logical_and(reference_arr, prediction_arr)
    union = np.logical_or(reference_arr, prediction_arr)

    union_sum = np.sum(union)

    # Handle division by zero
    if union_sum == 0:
        return 0.0

    iou = np.sum(intersection) / union_sum
    return iou
