from dataclasses import dataclass
from enum import EnumMeta
from typing import TYPE_CHECKING, Any, Callable

import numpy as np

from panoptica.metrics import (
    _compute_instance_average_symmetric_surface_distance,
    _compute_centerline_dice,
    _compute_instance_volumetric_dice,
    _compute_instance_iou,
    _compute_instance_relative_volume_difference,
    # _compute_instance_segmentation_tendency,
)
from panoptica.utils.constants import _Enum_Compare, auto

if TYPE_CHECKING:
    from panoptica.panoptica_result import PanopticaResult


@dataclass
class _Metric:
    """Represents a metric with a name, direction (increasing or decreasing), and a calculation function.

    This class provides a framework for defining and calculating metrics, which can be used
    to evaluate the similarity or performance between reference and prediction arrays.
    The metric direction indicates whether higher or lower values are better.

    Attributes:
        name (str): Short name of the metric.
        long_name (str): Full descriptive name of the metric.
        decreasing (bool): If True, lower metric values are better; otherwise, higher values are preferred.
        _metric_function (Callable): A callable function that computes the metric
            between two input arrays.

    Example:
        >>> my_metric = _Metric(name="accuracy", long_name="Accuracy", decreasing=False, _metric_function=accuracy_function)
        >>> score = my_metric(reference_array, prediction_array)
        >>> print(score)

    """

    name: str
    long_name: str
    decreasing: bool
    _metric_function: Callable

    def __call__(
        self,
        reference_arr: np.ndarray,
        prediction_arr: np.ndarray,
        ref_instance_idx: int | None = None,
        pred_instance_idx: int | list[int] | None = None,
        *args,
        **kwargs,
    ) -> int | float:
        """Calculates the metric between reference and prediction arrays.

        Args:
            reference_arr (np.ndarray): The reference array.
            prediction_arr (np.ndarray): The prediction array.
            ref_instance_idx (int, optional): The instance index to filter in the reference array.
            pred_instance_idx (int | list[int], optional): Instance index or indices to filter in
                the prediction array.
            *args: Additional positional arguments for the metric function.
            **kwargs: Additional keyword arguments for the metric function.

        Returns:
            int | float: The computed metric value.
        """
        if ref_instance_idx is not None and pred_instance_idx is not None:
            reference_arr = reference_arr.copy() == ref_instance_idx
            if isinstance(pred_instance_idx, int):
                pred_instance_idx = [pred_instance_idx]
            prediction_arr = np.isin(
                prediction_arr.copy(), pred_instance_idx
            )  # type:ignore
        return self._metric_function(reference_arr, prediction_arr, *args, **kwargs)

    def __eq__(self, __value: object) -> bool:
        if isinstance(__value, _Metric):
            return self.name == __value.name
        elif isinstance(__value, str):
            return self.name == __value
        else:
            return False

    def __str__(self) -> str:
        return f"{type(self).__name__}.{self.name}"

    def __repr__(self) -> str:
        return str(self)

    def __hash__(self) -> int:
        """Hash based on metric name, constrained to fit within 8 digits.

        Returns:
            int: The hash value of the metric.
        """
        return abs(hash(self.name)) % (10**8)

    @property
    def increasing(self):
        """Indicates if higher values of the metric are better.

        Returns:
            bool: True if increasing values are preferred, otherwise False.
        """
        return not self.decreasing

    def score_beats_threshold(
        self, matching_score: float, matching_threshold: float
    ) -> bool:
        """Determines if a matching score meets a specified threshold.

        Args:
            matching_score (float): The score to evaluate.
            matching_threshold (float): The threshold value to compare against.

        Returns:
            bool: True if the score meets the threshold, taking into account the
            metric's preferred direction.
        """
        return (self.increasing and matching_score >= matching_threshold) or (
            self.decreasing and matching_score <= matching_threshold
        )


class DirectValueMeta(EnumMeta):
    "Metaclass that allows for directly getting an enum attribute"

    def __getattribute__(cls, name) -> _Metric:
        value = super().__getattribute__(name)
        if isinstance(value, cls):
            value = value.value
        return value


class Metric(_Enum_Compare):
    """Enum containing important metrics that must be calculated in the evaluator, can be set for thresholding in matching and evaluation
    Never call the .value member here, use the properties directly

    Returns:
        _type_: _description_
    """

    DSC = _Metric("DSC", "Dice", False, _compute_instance_volumetric_dice)
    IOU = _Metric("IOU", "Intersection over Union", False, _compute_instance_iou)
    ASSD = _Metric(
        "ASSD",
        "Average Symmetric Surface Distance",
        True,
        _compute_instance_average_symmetric_surface_distance,
    )
    clDSC = _Metric("clDSC", "Centerline Dice", False, _compute_centerline_dice)
    RVD = _Metric(
        "RVD",
        "Relative Volume Difference",
        True,
        _compute_instance_relative_volume_difference,
    )
    # ST = _Metric("ST", False, _compute_instance_segmentation_tendency)

    def __call__(
        self,
        reference_arr: np.ndarray,
        prediction_arr: np.ndarray,
        ref_instance_idx: int | None = None,
        pred_instance_idx: int | list[int] | None = None,
        *args,
        **kwargs,
    ) -> int | float:
        """Calculates the underlaying metric

        Args:
            reference_arr (np.ndarray): Reference array
            prediction_arr (np.ndarray): Prediction array
            ref_instance_idx (int | None, optional): The index label to be evaluated for the reference. Defaults to None.
            pred_instance_idx (int | list[int] | None, optional): The index label to be evaluated for the prediction. Defaults to None.

        Returns:
            int | float: The metric value
        """
        return self.value(
            reference_arr=reference_arr,
            prediction_arr=prediction_arr,
            ref_instance_idx=ref_instance_idx,
            pred_instance_idx=pred_instance_idx,
            *args,
            **kwargs,
        )

    def score_beats_threshold(
        self, matching_score: float, matching_threshold: float
    ) -> bool:
        """Calculates whether a score beats a specified threshold

        Args:
            matching_score (float): Metric score
            matching_threshold (float): Threshold to compare against

        Returns:
            bool: True if the matching_score beats the threshold, False otherwise.
        """
        return (self.increasing and matching_score >= matching_threshold) or (
            self.decreasing and matching_score <= matching_threshold
        )

    @property
    def name(self):
        return self.value.name

    @property
    def decreasing(self):
        return self.value.decreasing

    @property
    def increasing(self):
        return self.value.increasing

    def __hash__(self) -> int:
        return abs(hash(self.name)) % (10**8)


class MetricMode(_Enum_Compare):
    """Different modalities from Metrics

    Args:
        _Enum_Compare (_type_): _description_
    """

    ALL = auto()
    AVG = auto()
    SUM = auto()
    STD = auto()
    MIN = auto()
    MAX = auto()


class MetricType(_Enum_Compare):
    """Different type of metrics

    Args:
        _Enum_Compare (_type_): _description_
    """

    NO_PRINT = auto()
    MATCHING = auto()
    GLOBAL = auto()
    INSTANCE = auto()


class MetricCouldNotBeComputedException(Exception):
    """Exception for when a Metric cannot be computed"""

    def __init__(self, *args: object) -> None:
        super().__init__(*args)


class Evaluation_Metric:
    """This represents a metric in the evaluation derived from other metrics or list metrics (no circular dependancies!)

    Args:
        name_id (str): code-name of this metric, must be same as the member variable of PanopticResult
        calc_func (Callable): the function to calculate this metric based on the PanopticResult object
        long_name (str | None, optional): A longer descriptive name for printing/logging purposes. Defaults to None.
        was_calculated (bool, optional): Whether this metric has been calculated or not. Defaults to False.
        error (bool, optional): If true, means the metric could not have been calculated (because dependancies do not exist or have this flag set to True). Defaults to False.
    """

    def __init__(
        self,
        name_id: str,
        metric_type: MetricType,
        calc_func: Callable | None,
        long_name: str | None = None,
        was_calculated: bool = False,
        error: bool = False,
    ):

        self.id = name_id
        self.metric_type = metric_type
        self._calc_func = calc_func
        self.long_name = long_name
        self._was_calculated = was_calculated
        self._value = None
        self._error = error
        self._error_obj: MetricCouldNotBeComputedException | None = None

    def __call__(self, result_obj: "PanopticaResult") -> Any:
        """If called, needs to return its way, raise error or calculate it

        Args:
            result_obj (PanopticaResult): _description_

        Raises:
            MetricCouldNotBeComputedException: _description_
            self._error_obj: _description_

        Returns:
            Any: _description_
        """
        # ERROR
        if self._error:
            if self._error_obj is None:
                self._error_obj = MetricCouldNotBeComputedException(
                    f"Metric {self.id} requested, but could not be computed"
                )
            raise self._error_obj
        # Already calculated?
        if self._was_calculated:
            return self._value

        # Calculate it
        try:
            assert (
                not self._was_calculated
            ), f"Metric {self.id} was called to compute, but is set to have been already calculated"
            assert (
                self._calc_func is not None
            ), f"Metric {self.id} was called to compute, but has no calculation function set"
            value = self._calc_func(result_obj)
        except MetricCouldNotBeComputedException as e:
            value = e
            self._error = True
            self._error_obj = e
        self._was_calculated = True

        self._value = value
        return self._value

    def __str__(self) -> str:
        if self.long_name is not None:
            return self.long_name + f" ({self.id})"
        else:
            return self.id


class Evaluation_List_Metric:
    def __init__(
        self,
        name_id: Metric,
        empty_list_std: float | None,
        value_list: list[float] | None,  # None stands for not calculated
        is_edge_case: bool = False,
        edge_case_result: float | None = None,
    ):
        """This represents the metrics resulting from a Metric calculated between paired instances (IoU, ASSD, Dice, ...)

        Args:
            name_id (Metric): code-name of this metric
            empty_list_std (float): Value for the standard deviation if the list of values is empty
            value_list (list[float] | None): List of values of that metric (only the TPs)
        """
        self.id = name_id
        self.error = value_list is None
        self.ALL: list[float] | None = value_list
        if is_edge_case:
            self.AVG: float | None = edge_case_result
            self.SUM: None | float = edge_case_result
            self.MIN: None | float = edge_case_result
            self.MAX: None | float = edge_case_result
        else:
            self.AVG = None if self.ALL is None else np.average(self.ALL)
            self.SUM = None if self.ALL is None else np.sum(self.ALL)
            self.MIN = (
                None if self.ALL is None or len(self.ALL) == 0 else np.min(self.ALL)
            )
            self.MAX = (
                None if self.ALL is None or len(self.ALL) == 0 else np.max(self.ALL)
            )

        self.STD = (
            None
            if self.ALL is None
            else empty_list_std if len(self.ALL) == 0 else np.std(self.ALL)
        )

    def __getitem__(self, mode: MetricMode | str):
        if self.error:
            raise MetricCouldNotBeComputedException(
                f"Metric {self.id} has not been calculated, add it to your eval_metrics"
            )
        if isinstance(mode, MetricMode):
            mode = mode.name
        if hasattr(self, mode):
            return getattr(self, mode)
        else:
            raise MetricCouldNotBeComputedException(
                f"List_Metric {self.id} does not contain {mode} member"
            )


if __name__ == "__main__":
    print(Metric.DSC)
    # print(MatchingMetric.DSC.name)

    print(Metric.DSC == Metric.DSC)
    print(Metric.DSC == "DSC")
    print(Metric.DSC.name == "DSC")
    #
    print(Metric.DSC == Metric.IOU)
    print(Metric.DSC == "IOU")
    print(Metric.DSC == "IOU")
