import numpy as np
from scipy.ndimage import _ni_support, binary_erosion, generate_binary_structure
from scipy.ndimage._nd_image import euclidean_feature_transform


def _compute_instance_average_symmetric_surface_distance(
    ref_labels: np.ndarray,
    pred_labels: np.ndarray,
    ref_instance_idx: int | None = None,
    pred_instance_idx: int | None = None,
    voxelspacing=None,
    connectivity=1,
):
    if ref_instance_idx is None and pred_instance_idx is None:
        return _average_symmetric_surface_distance(
            reference=ref_labels,
            prediction=pred_labels,
            voxelspacing=voxelspacing,
            connectivity=connectivity,
        )
    ref_instance_mask = ref_labels == ref_instance_idx
    pred_instance_mask = pred_labels == pred_instance_idx
    return _average_symmetric_surface_distance(
        reference=ref_instance_mask,
        prediction=pred_instance_mask,
        voxelspacing=voxelspacing,
        connectivity=connectivity,
    )


def _average_symmetric_surface_distance(
    reference,
    prediction,
    voxelspacing=None,
    connectivity=1,
    *args,
) -> float:
    """ASSD is computed by computing the average of the bidrectionally computed ASD."""
    assd = np.mean(
        (
            _average_surface_distance(
                reference=prediction,
                prediction=reference,
                voxelspacing=voxelspacing,
                connectivity=connectivity,
            ),
            _average_surface_distance(
                reference=reference,
                prediction=prediction,
                voxelspacing=voxelspacing,
                connectivity=connectivity,
            ),
        )
    )
    return float(assd)


def _average_surface_distance(reference, prediction, voxelspacing=None, connectivity=1):
    sds = __surface_distances(reference, prediction, voxelspacing, connectivity)
    asd = sds.mean()
    return asd


def __surface_distances(reference, prediction, voxelspacing=None, connectivity=1):
    """
    The distances between the surface voxel of binary objects in result and their
    nearest partner surface voxel of a binary object in reference.
    """
    prediction = np.atleast_1d(prediction.astype(bool))
    reference = np.atleast_1d(reference.astype(bool))
    if voxelspacing is not None:
        # Protected access presented by Scipy
        voxelspacing = _ni_support._normalize_sequence(voxelspacing, prediction.ndim)
        voxelspacing = np.asarray(voxelspacing, dtype=np.float64)
        if not voxelspacing.flags.contiguous:
            voxelspacing = voxelspacing.copy()

    # binary structure
    footprint = generate_binary_structure(prediction.ndim, connectivity)

    # test for emptiness
    # if 0 == np.count_nonzero(result):
    #    raise RuntimeError("The first supplied array does not contain any binary object.")
    # if 0 == np.count_nonzero(reference):
    #    raise RuntimeError("The second supplied array does not contain any binary object.")

    # extract only 1-pixel border line of objects
    result_border = prediction ^ binary_erosion(
        prediction, structure=footprint, iterations=1
    )
    reference_border = reference ^ binary_erosion(
        reference, structure=footprint, iterations=1
    )

    # compute average surface distance
    # Note: scipys distance transform is calculated only inside the borders of the
    #       foreground objects, therefore the input has to be reversed
    dt = _distance_transform_edt(~reference_border, sampling=None)
    sds = dt[result_border]

    return sds


def _distance_transform_edt(
    input_array: np.ndarray,
    sampling=None,
    return_distances=True,
    return_indices=False,
):
    """Computes the Euclidean distance transform and/or feature transform of a binary array.

    This function calculates the Euclidean distance transform (EDT) of a binary array,
    which gives the distance from each non-zero point to the nearest zero point. It can
    also return the feature transform, which provides indices to the nearest non-zero point.

    Args:
        input_array (np.ndarray): The input binary array where non-zero values are considered
            foreground.
        sampling (optional): A sequence or array that specifies the spacing along each dimension.
            If provided, scales the distances by the sampling value along each axis.
        return_distances (bool, optional): If True, returns the distance transform. Default is True.
        return_indices (bool, optional): If True, returns the feature transform with indices to
            the nearest foreground points. Default is False.

    Returns:
        np.ndarray or tuple[np.ndarray, ...]: If `return_distances` is True, returns the distance
        transform as an array. If `return_indices` is True, returns the feature transform. If both
        are True, returns a tuple with the distance and feature transforms.

    Raises:
        ValueError: If the input array is empty or has unsupported dimensions.
    """
    # calculate the feature transform
    # input = np.atleast_1d(np.where(input, 1, 0).astype(np.int8))
    # if sampling is not None:
    #    sampling = _ni_support._normalize_sequence(sampling, input.ndim)
    #    sampling = np.asarray(sampling, dtype=np.float64)
    #    if not sampling.flags.contiguous:
    #        sampling = sampling.copy()

    ft = np.zeros((input_array.ndim,) + input_array.shape, dtype=np.int32)

    euclidean_feature_transform(input_array, sampling, ft)
    # if requested, calculate the distance transform
    if return_distances:
        dt = ft - np.indices(input_array.shape, dtype=ft.dtype)
        dt = dt.astype(np.float64)
        # if sampling is not None:
        #    for ii in range(len(sampling)):
        #        dt[ii, ...] *= sampling[ii]
        np.multiply(dt, dt, dt)

        dt = np.add.reduce(dt, axis=0)
        dt = np.sqrt(dt)

    # construct and return the result
    result = []
    if return_distances:
        result.append(dt)
    if return_indices:
        result.append(ft)

    if len(result) == 2:
        return tuple(result)
    elif len(result) == 1:
        return result[0]
    else:
        return None
