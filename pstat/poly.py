"""Exact polynomial / rational-function arithmetic over named non-negative atoms.

Used by the VENN domain: cardinalities of Venn regions are atoms (a=|X\\Y|, b=|Y\\X|,
i=|X∩Y|, ...), counts are linear forms, metric kernels are rational functions.  Equality of
rational functions is decided by cross-multiplication of exact Fraction polynomials.
"""

from __future__ import annotations

from fractions import Fraction
from typing import Iterable, Union

Mono = tuple  # sorted tuple of (var, exp)


class Poly:
    __slots__ = ("terms",)

    def __init__(self, terms: dict[Mono, Fraction] | None = None):
        self.terms: dict[Mono, Fraction] = {m: c for m, c in (terms or {}).items() if c != 0}

    # constructors
    @staticmethod
    def const(c) -> "Poly":
        return Poly({(): Fraction(c)})

    @staticmethod
    def var(name: str) -> "Poly":
        return Poly({((name, 1),): Fraction(1)})

    # queries
    def is_zero(self) -> bool:
        return not self.terms

    def is_const(self) -> bool:
        return all(m == () for m in self.terms)

    def const_value(self) -> Fraction:
        return self.terms.get((), Fraction(0))

    def variables(self) -> set[str]:
        return {v for m in self.terms for v, _ in m}

    def is_linear(self) -> bool:
        return all(sum(e for _, e in m) <= 1 for m in self.terms)

    def nonneg_coeffs(self) -> bool:
        return all(c >= 0 for c in self.terms.values())

    # arithmetic
    def __add__(self, o):
        o = to_poly(o)
        t = dict(self.terms)
        for m, c in o.terms.items():
            t[m] = t.get(m, Fraction(0)) + c
        return Poly(t)

    __radd__ = __add__

    def __neg__(self):
        return Poly({m: -c for m, c in self.terms.items()})

    def __sub__(self, o):
        return self + (-to_poly(o))

    def __rsub__(self, o):
        return to_poly(o) - self

    def __mul__(self, o):
        o = to_poly(o)
        t: dict[Mono, Fraction] = {}
        for m1, c1 in self.terms.items():
            for m2, c2 in o.terms.items():
                d: dict[str, int] = {}
                for v, e in m1 + m2:
                    d[v] = d.get(v, 0) + e
                m = tuple(sorted(d.items()))
                t[m] = t.get(m, Fraction(0)) + c1 * c2
        return Poly(t)

    __rmul__ = __mul__

    def __eq__(self, o):
        if not isinstance(o, (Poly, int, Fraction)):
            return NotImplemented
        return (self - to_poly(o)).is_zero()

    def __hash__(self):
        return hash(tuple(sorted(self.terms.items())))

    def subst_zero(self, names: Iterable[str]) -> "Poly":
        ns = set(names)
        return Poly({m: c for m, c in self.terms.items() if not any(v in ns for v, _ in m)})

    def subst(self, mapping: dict[str, "Poly"]) -> "Poly":
        out = Poly()
        for m, c in self.terms.items():
            term = Poly.const(c)
            for v, e in m:
                base = mapping.get(v, Poly.var(v))
                for _ in range(e):
                    term = term * base
            out = out + term
        return out

    def __repr__(self):
        if not self.terms:
            return "0"
        parts = []
        for m, c in sorted(self.terms.items()):
            mono = "*".join(v if e == 1 else f"{v}^{e}" for v, e in m)
            if mono:
                parts.append(f"{c}*{mono}" if c != 1 else mono)
            else:
                parts.append(str(c))
        return " + ".join(parts)


def to_poly(x) -> Poly:
    if isinstance(x, Poly):
        return x
    if isinstance(x, bool):
        return Poly.const(int(x))
    if isinstance(x, (int, Fraction)):
        return Poly.const(x)
    if isinstance(x, float):
        return Poly.const(Fraction(x).limit_denominator(10**9))
    raise TypeError(f"not polynomial: {x!r}")


class Rat:
    """Rational function num/den (den not the zero polynomial)."""

    __slots__ = ("num", "den")

    def __init__(self, num, den=1):
        self.num = to_poly(num)
        self.den = to_poly(den)

    def undefined(self) -> bool:
        return self.den.is_zero()

    def __add__(self, o):
        o = to_rat(o)
        return Rat(self.num * o.den + o.num * self.den, self.den * o.den)

    __radd__ = __add__

    def __neg__(self):
        return Rat(-self.num, self.den)

    def __sub__(self, o):
        return self + (-to_rat(o))

    def __rsub__(self, o):
        return to_rat(o) - self

    def __mul__(self, o):
        o = to_rat(o)
        return Rat(self.num * o.num, self.den * o.den)

    __rmul__ = __mul__

    def __truediv__(self, o):
        o = to_rat(o)
        return Rat(self.num * o.den, self.den * o.num)

    def __rtruediv__(self, o):
        return to_rat(o) / self

    def equals(self, o) -> bool:
        o = to_rat(o)
        return (self.num * o.den - o.num * self.den).is_zero()

    def subst_zero(self, names) -> "Rat":
        return Rat(self.num.subst_zero(names), self.den.subst_zero(names))

    def subst(self, mapping) -> "Rat":
        return Rat(self.num.subst(mapping), self.den.subst(mapping))

    def is_poly(self) -> bool:
        return self.den.is_const() and not self.den.is_zero()

    def as_poly(self) -> Poly:
        assert self.is_poly()
        return self.num * Poly.const(1 / self.den.const_value())

    def __repr__(self):
        if self.is_poly():
            return repr(self.as_poly())
        return f"({self.num!r})/({self.den!r})"


def to_rat(x) -> Rat:
    if isinstance(x, Rat):
        return x
    return Rat(to_poly(x))
