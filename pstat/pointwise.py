"""Pointwise symbolic interpretation of numpy label-array code (SYMINT + WIDTH domains).

An array is represented by its value at one generic voxel: an exact polynomial over
non-negative unknowns together with the integer container (dtype class) that holds it.
Array statements are interpreted voxel-wise; `np.unique(a)` is the one-element collection of
that generic value.  Running the interpretation once per sign class of the inputs (label
absent = 0, label present = 1 + fresh non-negative unknown) makes every comparison of the
analysed codecs decidable by the sign test of symint; comparisons that are not decided are
split, and a wrong outcome is only reported together with a concrete witness valuation.
"""

from __future__ import annotations

import ast
from dataclasses import dataclass, field
from fractions import Fraction
from typing import Any, Optional

from .absval import Interp, Obj, Sym, Unknown, RaiseSignal
from .model import Func, Program, Undecided, dotted, norm
from .poly import Poly, to_poly
from .symint import decide_cmp, divide, evaluate, find_witness

BITS = {"bool": 1, "u8": 8, "u16": 16, "u32": 32, "u64": 64, "i8": 7, "i16": 15, "i32": 31, "i64": 63, "f64": 53, "py": 10**6}
DTYPE_NAMES = {
    "numpy.uint8": "u8", "numpy.uint16": "u16", "numpy.uint32": "u32", "numpy.uint64": "u64", "numpy.uint": "u64",
    "numpy.int8": "i8", "numpy.int16": "i16", "numpy.int32": "i32", "numpy.int64": "i64", "numpy.int_": "i64", "numpy.intp": "i64",
    "numpy.float64": "f64", "numpy.bool_": "bool", "builtin:int": "i64", "builtin:bool": "bool", "builtin:float": "f64",
    "numpy.uintp": "u64", "numpy.ulonglong": "u64", "numpy.longlong": "i64",
}


def dtype_of(v) -> Optional[str]:
    if isinstance(v, Sym):
        n = v.name
        if n.startswith("ext:"):
            n = n[4:]
        return DTYPE_NAMES.get(n)
    if isinstance(v, str):
        return {"uint8": "u8", "uint16": "u16", "uint32": "u32", "uint64": "u64", "int64": "i64", "int32": "i32", "bool": "bool", "float64": "f64"}.get(v)
    return None


@dataclass
class PV:
    """Pointwise value: polynomial + container + kind ('arr' array, 'nps' numpy scalar, 'py' python number)."""

    poly: Poly
    cont: str  # 'IN' (caller's dtype) or a key of BITS
    kind: str = "arr"
    origin: str = ""  # provenance tag, e.g. 'pred', 'ref'
    uniq: bool = False  # 1-D array of distinct values (np.unique result and what is derived element-wise)

    def __hash__(self):
        return hash((self.poly, self.cont, self.kind))


class EmptyArr:
    """A 1-D array from which the generic element was filtered out: every element-wise
    operation keeps it empty, iteration and tolist() give nothing."""

    def __repr__(self):
        return "EmptyArr()"


@dataclass
class Mask:
    """Pointwise boolean with a known truth value in the current sign class (or None)."""

    value: Optional[bool]
    text: str = ""


@dataclass
class WidthEvent:
    node: ast.AST
    op: str
    result: Poly
    cont: str
    detail: str


def promote(a: PV, b: PV) -> str:
    """numpy-1.x result container of a binary arithmetic operation (see DESIGN appendix A.4)."""
    if a.kind == "py" and b.kind == "py":
        return "py"
    if a.kind == "arr" and b.kind != "arr":
        return a.cont  # scalar operand: value-based casting keeps the array dtype
    if b.kind == "arr" and a.kind != "arr":
        return b.cont
    if a.kind == "nps" and b.kind == "py":
        return "nps-valuebased"
    if b.kind == "nps" and a.kind == "py":
        return "nps-valuebased"
    if a.cont == b.cont:
        return a.cont
    if "IN" in (a.cont, b.cont):
        other = b.cont if a.cont == "IN" else a.cont
        # IN is some unsigned dtype u8..u64: the promotion is at least as wide as `other`
        if other in ("u64",):
            return "u64"
        if other.startswith("u"):
            return f">={other}"
        if other == "bool":
            return "IN"
        return "i64-or-f64"
    if a.cont.startswith("u") and b.cont.startswith("u"):
        return a.cont if BITS[a.cont] >= BITS[b.cont] else b.cont
    if "f64" in (a.cont, b.cont):
        return "f64"
    if "bool" in (a.cont, b.cont):
        return b.cont if a.cont == "bool" else a.cont
    if a.cont.startswith("i") and b.cont.startswith("i"):
        return a.cont if BITS[a.cont] >= BITS[b.cont] else b.cont
    if a.cont[0] in "ui" and b.cont[0] in "ui" and a.cont in BITS and b.cont in BITS:
        s_, u_ = (a.cont, b.cont) if a.cont.startswith("i") else (b.cont, a.cont)
        ub = BITS[u_]
        for cand in ("i8", "i16", "i32", "i64"):
            if BITS[cand] >= ub and BITS[cand] >= BITS[s_]:
                return cand
        return "f64"
    return "i64-or-f64"


class Pointwise(Interp):
    """Interp over PV values.  `label_vars`: names of polynomial variables of label magnitude."""

    def __init__(self, prog, func, args, label_vars: set[str], **kw):
        super().__init__(prog, func, args, **kw)
        self.root.events = []  # type: ignore[attr-defined]
        self.root.label_vars = set(label_vars)  # type: ignore[attr-defined]
        self.root.witness_notes = []  # type: ignore[attr-defined]

    # -- helpers --------------------------------------------------------------------------
    def event(self, node, op, res: Poly, cont: str, detail: str):
        self.root.events.append(WidthEvent(node, op, res, cont, detail))

    def lift(self, v) -> Optional[PV]:
        if isinstance(v, PV):
            return v
        if isinstance(v, bool):
            return PV(Poly.const(int(v)), "py", "py")
        if isinstance(v, int):
            return PV(Poly.const(v), "py", "py")
        if isinstance(v, Fraction) and v.denominator == 1:
            return PV(Poly.const(v), "py", "py")
        return None

    # -- hooks ----------------------------------------------------------------------------
    def _mask_value(self, v, node):
        """truth of a voxel-wise comparison at the generic voxel (split if the sign test leaves it open)"""
        if isinstance(v, Mask) and v.value is not None:
            return v.value
        if isinstance(v, Unknown) and getattr(v, "pv", None) is not None:
            return self.decide(node, v)
        return None

    def binop_hook(self, op, l, r, node):
        if isinstance(op, (ast.BitAnd, ast.BitOr)) and isinstance(l, (Mask, Unknown)) and isinstance(r, (Mask, Unknown)):
            a, b = self._mask_value(l, node), self._mask_value(r, node)
            if a is not None and b is not None:
                return Mask((a and b) if isinstance(op, ast.BitAnd) else (a or b), norm(node) if isinstance(node, ast.AST) else "")
        if isinstance(l, EmptyArr) or isinstance(r, EmptyArr):
            return l if isinstance(l, EmptyArr) else r
        a, b = self.lift(l), self.lift(r)
        if a is None or b is None:
            return Unknown(f"binop {type(op).__name__} on {l!r},{r!r}")
        kind = "arr" if "arr" in (a.kind, b.kind) else ("nps" if "nps" in (a.kind, b.kind) else "py")
        cont = promote(a, b)
        if {a.kind, b.kind} == {"nps", "py"} and (a.cont if a.kind == "nps" else b.cont) == "u64" and isinstance(op, (ast.Add, ast.Sub, ast.Mult, ast.Mod, ast.FloorDiv, ast.Div)):
            # numpy 1.x: a uint64 scalar combined with a Python int is evaluated in float64; the
            # operand must be exactly representable there (integers are, up to 2**53)
            big = a.poly if a.kind == "nps" else b.poly
            self.event(node, "float64:" + type(op).__name__, big, "f64", f"{norm(node) if isinstance(node, ast.AST) else ''} (uint64 scalar with Python int -> float64)")
        if isinstance(op, ast.Add):
            res = a.poly + b.poly
        elif isinstance(op, ast.Sub):
            res = a.poly - b.poly
        elif isinstance(op, ast.Mult):
            res = a.poly * b.poly
        elif isinstance(op, (ast.Mod, ast.FloorDiv)):
            qr = None
            for var in sorted(b.poly.variables()):
                qr = divide(a.poly, b.poly, var)
                if qr is not None:
                    q, rem = qr
                    # need 0 <= rem < modulus for the division to be the Euclidean one
                    ok1, _ = decide_cmp(">=", rem, Poly(), True)
                    ok2, w2 = decide_cmp("<", rem, b.poly, True)
                    if ok1 is True and ok2 is True:
                        res = rem if isinstance(op, ast.Mod) else q
                        break
                    if ok2 is False:
                        # the remainder reaches the modulus for valuation w2: decoding is wrong there
                        self.root.witness_notes.append({"not_euclidean": norm(node), "valuation": w2})
                        res = Poly.var("!misdecoded")
                        break
                    qr = None
            if qr is None:
                if a.poly.is_zero():
                    res = Poly()
                else:
                    return Unknown("mod/floordiv not a provable Euclidean division")
        elif isinstance(op, (ast.BitOr, ast.BitAnd)) and a.cont == "bool" and b.cont == "bool":
            return Unknown("bool bitop")
        else:
            return Unknown(f"binop {type(op).__name__}")
        out = PV(res, cont, kind, a.origin or b.origin, uniq=(a.uniq and b.kind != "arr") or (b.uniq and a.kind != "arr"))
        if cont == "f64" and isinstance(op, (ast.Mod, ast.FloorDiv, ast.Div)) and kind != "py":
            # float64 remainder / floor division of integral values is exact only while the
            # operands are exactly representable (2**53)
            for big in (a.poly, b.poly):
                self.event(node, "float64:" + type(op).__name__, big, "f64", f"{norm(node) if isinstance(node, ast.AST) else ''} (float64 arithmetic on integral values)")
        if isinstance(op, (ast.Add, ast.Sub, ast.Mult)) and kind != "py":
            self.event(node, type(op).__name__, res, cont, f"{norm(node) if isinstance(node, ast.AST) else ''}")
        return out

    def compare(self, op, l, r, node):
        # dtype of a pointwise value against a dtype name
        ld = l.name[8:] if isinstance(l, Sym) and l.name.startswith("dtypeof:") else None
        rd = r.name[8:] if isinstance(r, Sym) and r.name.startswith("dtypeof:") else None
        if (ld is not None or rd is not None) and isinstance(op, (ast.Eq, ast.NotEq, ast.Is, ast.IsNot)):
            x = ld if ld is not None else dtype_of(l)
            y = rd if rd is not None else dtype_of(r)
            if x in BITS and y in BITS and "py" not in (x, y):
                eq = x == y
                return eq if isinstance(op, (ast.Eq, ast.Is)) else not eq
            return self._dtype_fact(f"{x}=={y}", node, isinstance(op, (ast.NotEq, ast.IsNot)))
        if isinstance(l, Sym) and l.name.startswith("dtypekind:") and isinstance(op, (ast.In, ast.NotIn, ast.Eq, ast.NotEq)) and isinstance(r, str):
            cont = l.name[10:]
            kind = "b" if cont == "bool" else cont[0] if cont in BITS and cont != "py" else None
            if kind is None:
                return self._dtype_fact(f"kind({cont}) in {r!r}", node, isinstance(op, (ast.NotIn, ast.NotEq)))
            res = (kind in r) if isinstance(op, (ast.In, ast.NotIn)) else (kind == r)
            return res if isinstance(op, (ast.In, ast.Eq)) else not res
        if isinstance(l, _PVMethod) or isinstance(r, _PVMethod):
            # shape / ndim / size of an input: a fact about the caller's arrays
            def key(v):
                return f"{v.pv.origin or 'arr'}.{v.name}" if isinstance(v, _PVMethod) else repr(v)

            if isinstance(l, _PVMethod) and isinstance(r, _PVMethod) and l.name == r.name and l.pv.origin == r.pv.origin and isinstance(op, (ast.Eq, ast.NotEq)):
                return isinstance(op, ast.Eq)
            if isinstance(l, _PVMethod) and l.name == "size" and isinstance(l.pv, PV) and l.pv.kind == "arr" and not l.pv.uniq and isinstance(r, int) and not isinstance(r, bool) and r in (0, 1):
                # an array of which a generic voxel is considered has at least that voxel
                t = {(ast.Gt, 0): True, (ast.NotEq, 0): True, (ast.GtE, 1): True, (ast.Eq, 0): False, (ast.LtE, 0): False, (ast.Lt, 1): False, (ast.GtE, 0): True}.get((type(op), r))
                if t is not None:
                    return t
            return self._dtype_fact(f"{key(l)} {type(op).__name__} {key(r)}", node, False)
        return super().compare(op, l, r, node)

    def _dtype_fact(self, what: str, node, negate: bool):
        """One opaque truth value per question about the inputs' dtype/shape (memoised, so that a
        fast path and its fallback see one consistent input class)."""
        facts = self.root.__dict__.setdefault("dtype_facts", {})
        u = facts.get(what)
        if u is None:
            u = facts[what] = Unknown(f"dtype-fact {what}")
        if negate:
            return not self.truth(u, node)
        return u

    def isinstance_hook(self, v, klass, node):
        if isinstance(v, PV) and v.kind == "arr":
            return self._dtype_fact(f"isinstance({v.origin or 'arr'}, {getattr(klass, 'name', klass)!s})", node, False)
        return super().isinstance_hook(v, klass, node)

    def get_attr(self, base, attr, node):
        if isinstance(base, Sym) and base.name.startswith("dtypeof:") and attr == "kind":
            return Sym("dtypekind:" + base.name[8:])
        if isinstance(base, EmptyArr):
            return _PVMethod(base, attr)
        return super().get_attr(base, attr, node)

    def _single_label(self) -> bool:
        """this path has decided that the reference label collection holds exactly one label"""
        one = Poly.const(1)
        for _n, v, d in self.root.taken:
            pv = getattr(v, "pv", None)
            if pv and pv[0] in ("==", "!=") and any(str(x).startswith("nlab") for p_ in pv[1:] for x in p_.variables()):
                # len(labels) == 1  <=>  1 + nlab == 1
                lhs, rhs = pv[1], pv[2]
                if ((lhs - rhs) - next((Poly.var(x) for x in (lhs - rhs).variables()), Poly())).is_zero() or ((rhs - lhs) - next((Poly.var(x) for x in (rhs - lhs).variables()), Poly())).is_zero():
                    if (pv[0] == "==") == bool(d):
                        return True
        return False

    def call_func(self, f, args, kwargs, node, self_obj=None):
        if self.prog.is_anchor(f.qual, "utils.numpy_utils:_get_bbox_nd") and args and isinstance(args[0], (Mask, Unknown)):
            # the bounding box of a mask (R10.2: it holds every voxel of the mask): the generic voxel is inside
            # if it is in the mask, otherwise it may or may not be
            t = self._mask_value(args[0], node)
            if t is not None:
                return BoxV(True if t else None)
        return super().call_func(f, args, kwargs, node, self_obj=self_obj)

    def _in_box(self, box, node) -> bool:
        if box.inside is None:
            box.inside = self.decide(node, self.root.__dict__.setdefault("_box_unknowns", {}).setdefault(id(box), Unknown("voxel-in-box")))
        return box.inside

    def subscript_hook(self, base, idx, node):
        if isinstance(base, EmptyArr):
            return base
        if isinstance(idx, BoxV) and (isinstance(base, (Mask, Unknown)) or (isinstance(base, PV) and base.kind == "arr" and not base.uniq)):
            # restriction to a box: the generic voxel stays (with its value / its mask value) or is cut away
            return base if self._in_box(idx, node) else EmptyArr()
        if isinstance(base, LabelSeq) and isinstance(idx, int) and not isinstance(idx, bool) and idx in (0, -1) and self._single_label():
            # the only reference label: it is the label of every reference voxel that has one
            ref = next((v for v in self.root.env.values() if isinstance(v, PV) and v.kind == "arr" and v.origin == "ref"), None)
            if ref is not None:
                pos, _ = decide_cmp(">=", ref.poly, Poly.const(1), True)
                return PV(ref.poly, ref.cont, "nps", "ref") if pos is True else base.max_value
        if isinstance(base, PV) and base.kind == "arr" and not base.uniq and isinstance(idx, (Mask, Unknown)):
            # boolean selection of voxels: the generic voxel is among them or not
            t = self._mask_value(idx, node)
            if t is not None:
                return PV(base.poly, base.cont, "arr", base.origin) if t else EmptyArr()
        if isinstance(base, PV) and base.uniq and isinstance(idx, int) and not isinstance(idx, bool):
            return PV(base.poly, base.cont, "nps", base.origin)  # some element: the generic one
        if isinstance(base, PV) and base.uniq:
            # boolean selection from the array of distinct values: the generic element stays or goes
            if isinstance(idx, Mask) and idx.value is not None:
                return base if idx.value else EmptyArr()
            if isinstance(idx, Unknown) and getattr(idx, "pv", None) is not None:
                return base if self.decide(node, idx) else EmptyArr()
        return super().subscript_hook(base, idx, node)

    def compare_hook(self, op, l, r, node):
        if isinstance(l, EmptyArr) or isinstance(r, EmptyArr):
            return Mask(None, "comparison on an empty selection")
        a, b = self.lift(l), self.lift(r)
        if a is None or b is None:
            return Unknown("compare")
        sym = {ast.Eq: "==", ast.NotEq: "!=", ast.Lt: "<", ast.LtE: "<=", ast.Gt: ">", ast.GtE: ">="}.get(type(op))
        if sym is None:
            return Unknown("compare op")
        t, _ = decide_cmp(sym, a.poly, b.poly, True)
        if t is True:
            return True if "arr" not in (a.kind, b.kind) else Mask(True, norm(node))
        f, _ = decide_cmp(sym, a.poly, b.poly, False)
        if f is True:
            return False if "arr" not in (a.kind, b.kind) else Mask(False, norm(node))
        u = Unknown(f"{norm(node)}")
        u.pv = (sym, a.poly, b.poly)  # type: ignore[attr-defined]
        return u

    def truth_hook(self, v, node):
        if isinstance(v, Mask) and v.value is not None:
            return v.value
        if isinstance(v, PV):
            t, _ = decide_cmp("!=", v.poly, Poly(), True)
            if t is True:
                return True
            if v.poly.is_zero():
                return False
        return self.decide(node, v)

    def attr_hook(self, base, attr, node):
        if attr == "any" and (isinstance(base, Mask) or (isinstance(base, Unknown) and getattr(base, "pv", None) is not None)):
            return _MaskAny(base)
        if isinstance(base, PV):
            if attr == "dtype":
                return Sym("dtypeof:" + base.cont)
            return _PVMethod(base, attr)
        return Unknown(f"attr {attr}")

    def apply(self, fv, args, kwargs, node):
        if isinstance(fv, _MaskAny) and not args and not kwargs:
            # is any voxel of the array in the mask: yes if the generic voxel is, else it depends on the others
            t = self._mask_value(fv.mask, node)
            return True if t else self.root.__dict__.setdefault("_any_elsewhere", Unknown("any-elsewhere"))
        if isinstance(fv, _PVMethod):
            return self.pv_method(fv.pv, fv.name, args, kwargs, node)
        return super().apply(fv, args, kwargs, node)

    def pv_method(self, pv, name, args, kwargs, node):
        if isinstance(pv, EmptyArr):
            if name in ("astype", "copy"):
                return pv
            if name == "tolist":
                return []
            return Unknown(f"array method {name} on an empty selection")
        if name == "tolist" and pv.uniq and not args and not kwargs:
            # python numbers with the values of the elements
            return [PV(pv.poly, "py", "py", pv.origin)]
        if name == "astype":
            dt = dtype_of(args[0]) if args else None
            if dt is None and args and isinstance(args[0], Sym) and args[0].name.startswith("dtypeof:"):
                dt = args[0].name[8:]
            if dt is None:
                return Unknown("astype to unknown dtype")
            self.event(node, "astype", pv.poly, dt, "cast")
            return PV(pv.poly, dt, pv.kind, pv.origin, uniq=pv.uniq)
        if name == "copy":
            return pv
        if name == "max" and not args and not kwargs and pv.kind == "arr":
            # the array's maximum is at least the value at the generic voxel: that value plus a
            # fresh non-negative unknown (one per array value, so asking twice gives the same)
            mx = self.root.__dict__.setdefault("_max_vars", {})
            key = (repr(pv.poly), pv.cont, pv.origin)
            if key not in mx:
                mx[key] = Poly.var(f"mx{len(mx)}_{pv.origin or 'arr'}")
                self.root.__dict__.setdefault("max_polys", []).append(pv.poly + mx[key])
            return PV(pv.poly + mx[key], pv.cont, "nps", pv.origin)
        if name in ("max", "min"):
            return Unknown(f"{name} of array")
        if name in ("sum", "any", "all"):
            return Unknown(f"reduction {name}")
        return Unknown(f"array method {name}")

    def store_subscript_hook(self, base, idx, v, node):
        if isinstance(base, PV) and isinstance(idx, Mask):
            if idx.value is True:
                nv = self.lift(v)
                if nv is None:
                    raise Undecided("masked store of abstract value")
                new = PV(nv.poly, base.cont, "arr", base.origin)
                self._rebind(node.value, new)
                return
            if idx.value is False:
                return
        if isinstance(base, PV):
            raise Undecided(f"array store {norm(node)}")

    def _rebind(self, target: ast.expr, v):
        if isinstance(target, ast.Name):
            self.env[target.id] = v
        else:
            raise Undecided("masked store into non-name")

    def external_call(self, name, args, kwargs, node):
        n = name
        if n in ("numpy.logical_and", "numpy.logical_or", "numpy.bitwise_and", "numpy.bitwise_or") and len(args) == 2 and not kwargs and all(isinstance(a, (Mask, Unknown)) for a in args):
            a, b = self._mask_value(args[0], node), self._mask_value(args[1], node)
            if a is not None and b is not None:
                return Mask((a and b) if n.endswith("and") else (a or b), norm(node) if isinstance(node, ast.AST) else "")
        if n == "numpy.logical_not" and len(args) == 1 and not kwargs and isinstance(args[0], (Mask, Unknown)):
            a = self._mask_value(args[0], node)
            if a is not None:
                return Mask(not a, norm(node) if isinstance(node, ast.AST) else "")
        if n in ("numpy.unique",):
            if args and isinstance(args[0], EmptyArr) and not kwargs:
                return args[0]
            if args and isinstance(args[0], PV) and not kwargs:
                a = args[0]
                return PV(a.poly, a.cont, "arr", a.origin, uniq=True)
            if args and isinstance(args[0], PV) and set(kwargs) == {"return_counts"} and kwargs["return_counts"] is True:
                # the distinct values and, position by position, how many voxels carry each of them
                a = args[0]
                return (PV(a.poly, a.cont, "arr", a.origin, uniq=True), VoxCounts())
            return Unknown("np.unique with options")
        if n in _UFUNC_OPS and len(args) == 2 and not (set(kwargs) - {"out", "casting", "dtype"}):
            if "dtype" in kwargs:
                # the operation is carried out in the requested dtype: array operands are cast to it first
                dt = dtype_of(kwargs["dtype"])
                if dt is None:
                    return Unknown(f"{n} with an unknown dtype=")
                cast = []
                for a_ in args:
                    if isinstance(a_, PV) and a_.kind != "py" and a_.cont != dt:
                        self.event(node, "astype", a_.poly, dt, "ufunc dtype= cast")
                        a_ = PV(a_.poly, dt, a_.kind, a_.origin, uniq=a_.uniq)
                    cast.append(a_)
                args = cast
            res = self.binop(_UFUNC_OPS[n](), args[0], args[1], node)
            out = kwargs.get("out")
            if out is not None:
                # in place: every name bound to the output array sees the new values; the values are
                # cast to the output's container
                if not isinstance(out, PV) or isinstance(res, Unknown):
                    raise Undecided(f"{n} with out= on an unmodelled value")
                if isinstance(res, PV):
                    if res.cont != out.cont:
                        self.event(node, "astype", res.poly, out.cont, "ufunc out= cast")
                    res = PV(res.poly, out.cont, out.kind, res.origin or out.origin, uniq=out.uniq)
                for k, v in list(self.env.items()):
                    if v is out:
                        self.env[k] = res
            return res
        if n in ("numpy.greater", "numpy.less", "numpy.greater_equal", "numpy.less_equal", "numpy.equal", "numpy.not_equal") and len(args) == 2 and not kwargs:
            op = {"greater": ast.Gt, "less": ast.Lt, "greater_equal": ast.GtE, "less_equal": ast.LtE, "equal": ast.Eq, "not_equal": ast.NotEq}[n.split(".")[1]]
            return self.compare(op(), args[0], args[1], node)
        if n == "numpy.float64" and args and isinstance(self.lift(args[0]), PV) and not kwargs:
            a = self.lift(args[0])
            self.event(node, "astype", a.poly, "f64", "cast")
            return PV(a.poly, "f64", "nps" if a.kind != "arr" else "arr", a.origin, uniq=a.uniq)
        if n in ("max", "min", "builtin:max", "builtin:min") or n in ("numpy.max", "numpy.amax"):
            if args and isinstance(args[0], LabelSeq):
                return args[0].max_value if n.endswith("max") else Unknown("min of labels")
            return Unknown(n)
        if n in ("int", "builtin:int"):
            if args and isinstance(args[0], PV):
                return PV(args[0].poly, "py", "py", args[0].origin)
        if n in ("numpy.uint64", "numpy.int64", "numpy.uint32"):
            if args and isinstance(args[0], PV):
                dt = DTYPE_NAMES["numpy." + n.split(".")[1]]
                return PV(args[0].poly, dt, "nps", args[0].origin)
        return Unknown(f"{n}(...)")

    def call_builtin(self, name, args, kwargs, node):
        if name == "len" and len(args) == 1 and isinstance(args[0], LabelSeq):
            # number of labels of that side: at least one if the generic voxel carries a label of it
            # (then max >= 1), otherwise unknown (>= 0)
            seq = args[0]
            nv = self.root.__dict__.setdefault("_len_vars", {})
            key = id(seq)
            if key not in nv:
                nv[key] = Poly.var(f"nlab{len(nv)}")
            t, _ = decide_cmp(">=", seq.max_value.poly, Poly.const(1), True)
            return PV((Poly.const(1) if t is True else Poly()) + nv[key], "py", "py")
        if name in ("max", "min") and args and isinstance(args[0], LabelSeq):
            return args[0].max_value if name == "max" else Unknown("min of labels")
        if name == "int" and args and isinstance(args[0], PV):
            return PV(args[0].poly, "py", "py", args[0].origin)
        if name == "int" and len(args) == 1 and isinstance(args[0], Sym) and args[0].name == "nvoxels":
            return args[0]
        if name == "zip" and args and not kwargs and all((isinstance(a, PV) and a.uniq) or isinstance(a, VoxCounts) for a in args):
            # parallel walk over the distinct values (and their counts): the generic voxel's entry
            return [tuple(self.iterate(a, node)[0] for a in args)]
        return super().call_builtin(name, args, kwargs, node)

    def iterate(self, it, node):
        if isinstance(it, list):
            return it
        if isinstance(it, EmptyArr):
            return []
        if isinstance(it, PV) and it.uniq:
            return [PV(it.poly, it.cont, "nps", it.origin)]
        if isinstance(it, VoxCounts):
            return [Sym("nvoxels")]
        return super().iterate(it, node)


_UFUNC_OPS = {
    "numpy.remainder": ast.Mod, "numpy.mod": ast.Mod, "numpy.floor_divide": ast.FloorDiv, "numpy.add": ast.Add,
    "numpy.multiply": ast.Mult, "numpy.subtract": ast.Sub,
}


class VoxCounts:
    """second result of np.unique(..., return_counts=True): one voxel count per distinct value"""


class BoxV:
    """A bounding box computed from a mask: `inside` tells whether the generic voxel lies in it (None: open)."""

    def __init__(self, inside):
        self.inside = inside


class _MaskAny:
    def __init__(self, mask):
        self.mask = mask


@dataclass
class LabelSeq:
    """Tuple of the unique labels of one side; only its maximum is modelled."""

    max_value: PV


class _PVMethod:
    def __init__(self, pv, name):
        self.pv = pv
        self.name = name


def required_bits(p: Poly, label_vars: set[str], label_bits: int = 24) -> int:
    """Bits needed for the worst-case value when every label-magnitude variable is < 2^24."""
    worst = 0
    total = Fraction(0)
    for m, c in p.terms.items():
        deg = sum(e for v, e in m if v in label_vars)
        total += abs(c) * (Fraction(2) ** (label_bits * deg))
    if total <= 1:
        return 1
    import math

    return math.ceil(math.log2(float(total)))
