"""L0/L2: program model and call resolution for the panoptica package.

A Program is built from a mapping {relative path -> source text}; it can therefore be
built from the working tree of /repo, from the frozen base corpus, or from an in-memory
variant (mutant / twin) without touching the disk.
"""

from __future__ import annotations

import ast
import os
from dataclasses import dataclass, field
from typing import Iterable, Iterator, Optional

PKG = "panoptica"


def _self_attr_stores(trees) -> dict:
    """class name -> {private attribute name: normalised text of its first assigned value}"""
    out: dict[str, dict[str, str]] = {}
    for tree in trees:
        for c in ast.walk(tree):
            if not isinstance(c, ast.ClassDef):
                continue
            d = out.setdefault(c.name, {})
            for f in c.body:
                if not isinstance(f, (ast.FunctionDef, ast.AsyncFunctionDef)) or not f.args.args:
                    continue
                me = f.args.args[0].arg
                for st in ast.walk(f):
                    tgs = st.targets if isinstance(st, ast.Assign) else [st.target] if isinstance(st, (ast.AnnAssign, ast.AugAssign)) else []
                    for t in tgs:
                        for x in ast.walk(t):
                            if isinstance(x, ast.Attribute) and isinstance(x.value, ast.Name) and x.value.id == me and x.attr.startswith("_") and not x.attr.endswith("__"):
                                val = getattr(st, "value", None)
                                d.setdefault(x.attr, ast.dump(val) if val is not None else "")
    return out


def _self_attr_uses(trees) -> dict:
    """class name -> {private attribute: (sorted tuple of methods that touch it, number of uses)}"""
    out: dict[str, dict[str, tuple]] = {}
    for tree in trees:
        for c in ast.walk(tree):
            if not isinstance(c, ast.ClassDef):
                continue
            acc: dict[str, list] = {}
            for f in c.body:
                if not isinstance(f, (ast.FunctionDef, ast.AsyncFunctionDef)) or not f.args.args:
                    continue
                me = f.args.args[0].arg
                for x in ast.walk(f):
                    if isinstance(x, ast.Attribute) and isinstance(x.value, ast.Name) and x.value.id == me and x.attr.startswith("_") and not x.attr.endswith("__"):
                        acc.setdefault(x.attr, []).append(f.name)
            d = out.setdefault(c.name, {})
            for a, ms in acc.items():
                d[a] = (tuple(sorted(set(ms))), len(ms))
    return out


def _identifiers(trees) -> set:
    ids = set()
    for tree in trees:
        for n in ast.walk(tree):
            if isinstance(n, ast.Attribute):
                ids.add(n.attr)
            elif isinstance(n, ast.Name):
                ids.add(n.id)
            elif isinstance(n, ast.arg):
                ids.add(n.arg)
            elif isinstance(n, ast.keyword) and n.arg:
                ids.add(n.arg)
            elif isinstance(n, (ast.FunctionDef, ast.ClassDef)):
                ids.add(n.name)
            elif isinstance(n, ast.Constant) and isinstance(n.value, str) and len(n.value) < 80:
                ids.add(n.value)
                for part in n.value.replace(".", " ").split():
                    ids.add(part)
    return ids


_BASE_ATTRS: list = []


def _normalise_private_attributes(prog, trees) -> dict:
    """Consistent renaming of a private instance attribute does not change behaviour.  The rules
    name a few private attributes of the pinned tree (`_prediction_arr`, `__output_file`, ...);
    when such an attribute was renamed, the parsed trees are alpha-renamed back to the name of
    the frozen base, so every rule sees the names it knows.  A renaming new -> old is applied
    only if it is unambiguous: `old` is a private attribute the base class assigns on self and
    the current class no longer does, `new` is assigned on self in the current class but not in
    the base class, `new` occurs nowhere in the base and `old` nowhere in the current tree,
    and either it is the only such pair of the class or the first assigned values agree."""
    if prog.root == "<corpus:base>":
        return {}
    if not _BASE_ATTRS:
        try:
            from . import variants

            btrees = [ast.parse(s) for p, s in sorted(variants.base_sources().items()) if p.endswith(".py")]
            _BASE_ATTRS.append((_self_attr_stores(btrees), _identifiers(btrees), _self_attr_uses(btrees)))
        except Exception:
            _BASE_ATTRS.append(None)
    if _BASE_ATTRS[0] is None:
        return {}
    base_stores, base_ids, base_uses = _BASE_ATTRS[0]
    cur_stores = _self_attr_stores(trees)
    cur_uses = None
    cur_ids = None
    mapping: dict[str, str] = {}
    for cname, battrs in base_stores.items():
        cattrs = cur_stores.get(cname)
        if cattrs is None:
            continue
        missing = [a for a in battrs if a not in cattrs]
        fresh = [a for a in cattrs if a not in battrs]
        if not missing or not fresh:
            continue
        if cur_ids is None:
            cur_ids = _identifiers(trees)
        missing = [a for a in missing if a not in cur_ids]
        fresh = [a for a in fresh if a not in base_ids]
        pairs = []
        if len(missing) == 1 and len(fresh) == 1:
            pairs = [(fresh[0], missing[0])]
        else:
            # several renames in one class: similarity = same first assigned value (2), touched
            # by the same methods (1), same number of uses (1); a pair is accepted when each
            # side is the other's unique best match
            if cur_uses is None:
                cur_uses = _self_attr_uses(trees)
            bu, cu = base_uses.get(cname, {}), cur_uses.get(cname, {})

            def sim(new, old):
                s = 0
                if cattrs[new].replace(repr(new), repr(old)) == battrs[old]:
                    s += 2
                mb, mc = bu.get(old, ((), 0)), cu.get(new, ((), 0))
                if mb[0] == mc[0] and mb[0]:
                    s += 1
                if mb[1] == mc[1] and mb[1]:
                    s += 1
                return s

            table = {(new, old): sim(new, old) for new in fresh for old in missing}
            for old in missing:
                best = max((table[(n, old)] for n in fresh), default=0)
                top = [n for n in fresh if table[(n, old)] == best]
                if best >= 1 and len(top) == 1:
                    new = top[0]
                    back = max(table[(new, o)] for o in missing)
                    if [o for o in missing if table[(new, o)] == back] == [old]:
                        pairs.append((new, old))
        for new, old in pairs:
            if new.startswith("__") != old.startswith("__"):
                continue  # name mangling would change which class owns the attribute
            if mapping.get(new, old) != old or old in mapping.values() and mapping.get(new) != old:
                continue
            mapping[new] = old
    if mapping:
        for tree in trees:
            for n in ast.walk(tree):
                if isinstance(n, ast.Attribute) and n.attr in mapping:
                    n.attr = mapping[n.attr]
    return mapping


_BASE_PROG = []


def _base_program():
    """Program of the frozen base corpus (reference for renamed anchors), loaded lazily."""
    if not _BASE_PROG:
        try:
            from . import variants

            _BASE_PROG.append(Program(variants.base_sources(), root="<corpus:base>"))
        except Exception:
            _BASE_PROG.append(None)
    return _BASE_PROG[0]


class AnchorMissing(Exception):
    """An anchored construct (function, class, call site, ...) no longer exists."""


class Undecided(Exception):
    """The analysis met a construct it has no model for."""


# ----------------------------------------------------------------------------------------
# sources
# ----------------------------------------------------------------------------------------


def read_sources(root: str, extra_dirs: Iterable[str] = ()) -> dict[str, str]:
    """All *.py / *.yaml files of the package (relative paths with '/')."""
    out: dict[str, str] = {}
    pk = os.path.join(root, PKG)
    if not os.path.isdir(pk):
        raise AnchorMissing(f"package directory {pk} not found")
    for base in [PKG, *extra_dirs]:
        top = os.path.join(root, base)
        for dp, dn, fn in os.walk(top):
            dn[:] = sorted(d for d in dn if d != "__pycache__")
            for f in sorted(fn):
                if f.endswith((".py", ".yaml", ".yml")):
                    p = os.path.join(dp, f)
                    rel = os.path.relpath(p, root).replace(os.sep, "/")
                    with open(p, "r", encoding="utf8") as fh:
                        out[rel] = fh.read()
    return out


# ----------------------------------------------------------------------------------------
# model objects
# ----------------------------------------------------------------------------------------


@dataclass
class Param:
    name: str
    annotation: Optional[ast.expr]
    default: Optional[ast.expr]
    kind: str  # 'pos', 'kwonly', 'vararg', 'kwarg'


@dataclass
class Func:
    name: str
    qual: str  # "<module rel to panoptica>:<Class.>name"
    module: "Module"
    node: ast.FunctionDef
    cls: Optional["Class"] = None
    parent: Optional["Func"] = None  # nested function

    def __hash__(self):
        return hash(self.qual)

    def __eq__(self, o):
        return isinstance(o, Func) and o.qual == self.qual

    @property
    def decorators(self) -> list[str]:
        return [dotted(d) or "" for d in self.node.decorator_list]

    @property
    def is_property(self) -> bool:
        return "property" in self.decorators or self.is_cached_property

    @property
    def is_cached_property(self) -> bool:
        return any(d.split(".")[-1] == "cached_property" for d in self.decorators)

    @property
    def is_classmethod(self) -> bool:
        return "classmethod" in self.decorators

    @property
    def is_staticmethod(self) -> bool:
        return "staticmethod" in self.decorators

    @property
    def params(self) -> list[Param]:
        a = self.node.args
        out: list[Param] = []
        pos = list(a.posonlyargs) + list(a.args)
        defaults = [None] * (len(pos) - len(a.defaults)) + list(a.defaults)
        for p, d in zip(pos, defaults):
            out.append(Param(p.arg, p.annotation, d, "pos"))
        if a.vararg:
            out.append(Param(a.vararg.arg, a.vararg.annotation, None, "vararg"))
        for p, d in zip(a.kwonlyargs, a.kw_defaults):
            out.append(Param(p.arg, p.annotation, d, "kwonly"))
        if a.kwarg:
            out.append(Param(a.kwarg.arg, a.kwarg.annotation, None, "kwarg"))
        return out

    @property
    def call_params(self) -> list[Param]:
        """Parameters as seen by a caller (self/cls dropped for methods)."""
        ps = self.params
        if self.cls is not None and not self.is_staticmethod and ps and ps[0].kind == "pos":
            return ps[1:]
        return ps

    @property
    def self_name(self) -> Optional[str]:
        if self.cls is not None and not self.is_staticmethod and self.node.args.args:
            return self.node.args.args[0].arg
        return None

    def loc(self, node: Optional[ast.AST] = None) -> str:
        ln = getattr(node, "lineno", None) if node is not None else self.node.lineno
        return f"{self.module.path}:{ln}"

    def __repr__(self):
        return f"<Func {self.qual}>"


@dataclass
class Class:
    name: str
    qual: str
    module: "Module"
    node: ast.ClassDef
    methods: dict[str, Func] = field(default_factory=dict)
    base_exprs: list[ast.expr] = field(default_factory=list)
    bases: list["Class"] = field(default_factory=list)  # resolved internal bases
    subclasses: list["Class"] = field(default_factory=list)

    def __hash__(self):
        return hash(self.qual)

    def __eq__(self, o):
        return isinstance(o, Class) and o.qual == self.qual

    def mro(self) -> list["Class"]:
        out: list[Class] = []
        seen = set()

        def rec(c: Class):
            if c.qual in seen:
                return
            seen.add(c.qual)
            out.append(c)
            for b in c.bases:
                rec(b)

        rec(self)
        return out

    def lookup(self, name: str) -> Optional[Func]:
        for c in self.mro():
            if name in c.methods:
                return c.methods[name]
        return None

    def all_subclasses(self) -> list["Class"]:
        out: list[Class] = []
        stack = list(self.subclasses)
        while stack:
            c = stack.pop()
            if c not in out:
                out.append(c)
                stack.extend(c.subclasses)
        return out

    def is_subclass_of(self, other: "Class") -> bool:
        return other in self.mro()

    def class_assigns(self) -> dict[str, ast.expr]:
        out = {}
        for st in self.node.body:
            if isinstance(st, ast.Assign) and len(st.targets) == 1 and isinstance(st.targets[0], ast.Name):
                out[st.targets[0].id] = st.value
        return out

    def mangle(self, attr: str) -> str:
        if attr.startswith("__") and not attr.endswith("__"):
            return "_" + self.name.lstrip("_") + attr
        return attr

    def __repr__(self):
        return f"<Class {self.qual}>"


@dataclass
class Module:
    name: str  # dotted, e.g. panoptica.utils.config
    path: str  # relative path
    tree: ast.Module
    source: str
    imports: dict[str, tuple[str, Optional[str]]] = field(default_factory=dict)
    functions: dict[str, Func] = field(default_factory=dict)
    classes: dict[str, Class] = field(default_factory=dict)
    assigns: dict[str, ast.expr] = field(default_factory=dict)

    @property
    def rel(self) -> str:
        n = self.name
        if n == PKG:
            return ""
        return n[len(PKG) + 1 :]


def dotted(e: ast.AST) -> Optional[str]:
    """'a.b.c' for Name/Attribute chains, else None."""
    parts = []
    while isinstance(e, ast.Attribute):
        parts.append(e.attr)
        e = e.value
    if isinstance(e, ast.Name):
        parts.append(e.id)
        return ".".join(reversed(parts))
    return None


def norm(e: ast.AST) -> str:
    """Normalised text of an AST node (stable under formatting)."""
    try:
        return ast.unparse(e)
    except Exception:  # pragma: no cover
        return ast.dump(e)


# ----------------------------------------------------------------------------------------
# Program
# ----------------------------------------------------------------------------------------


class Program:
    def __init__(self, sources: dict[str, str], root: str = "<memory>"):
        self.root = root
        self.sources = sources
        self.modules: dict[str, Module] = {}
        self.functions: dict[str, Func] = {}
        self.classes: dict[str, Class] = {}
        self.parse_errors: list[str] = []
        self._parents: dict[int, dict[int, ast.AST]] = {}
        self._build()

    # -- construction -------------------------------------------------------------------
    @classmethod
    def from_dir(cls, root: str, extra_dirs: Iterable[str] = ()) -> "Program":
        return cls(read_sources(root, extra_dirs), root=root)

    def _build(self):
        parsed = []
        for path, src in sorted(self.sources.items()):
            if not path.endswith(".py"):
                continue
            modname = path[:-3].replace("/", ".")
            if modname.endswith(".__init__"):
                modname = modname[: -len(".__init__")]
            try:
                tree = ast.parse(src, filename=path)
            except SyntaxError as e:
                self.parse_errors.append(f"{path}: {e}")
                continue
            parsed.append((modname, path, tree, src))
        self.attr_renames = _normalise_private_attributes(self, [t for _, _, t, _ in parsed])
        # local helper objects used only through their small methods are written out (sroa.py)
        from .sroa import scalar_replace

        self.scalar_replaced = {path: k for _, path, t, _ in parsed for k in [scalar_replace(t)] if k}
        for modname, path, tree, src in parsed:
            m = Module(modname, path, tree, src)
            self.modules[modname] = m
            self._scan_module(m)
        # resolve bases
        for c in self.classes.values():
            for be in c.base_exprs:
                b = self.resolve_class_expr(c.module, be)
                if b is not None:
                    c.bases.append(b)
                    b.subclasses.append(c)

    def _scan_module(self, m: Module):
        is_pkg = m.path.endswith("__init__.py")

        def scan_imports(body):
            for st in body:
                if isinstance(st, ast.Import):
                    for a in st.names:
                        m.imports[a.asname or a.name.split(".")[0]] = (a.name if a.asname else a.name.split(".")[0], None)
                elif isinstance(st, ast.ImportFrom):
                    base = st.module or ""
                    if st.level:
                        parts = m.name.split(".")
                        if not is_pkg:
                            parts = parts[:-1]
                        parts = parts[: len(parts) - (st.level - 1)]
                        base = ".".join(parts + ([st.module] if st.module else []))
                    for a in st.names:
                        m.imports[a.asname or a.name] = (base, a.name)
                elif isinstance(st, (ast.If, ast.Try)):
                    for sub in ast.iter_child_nodes(st):
                        pass
                    scan_imports(getattr(st, "body", []))
                    scan_imports(getattr(st, "orelse", []))
                    for h in getattr(st, "handlers", []):
                        scan_imports(h.body)

        scan_imports(m.tree.body)
        relmod = m.rel

        def add_func(node, cls=None, parent=None):
            if cls is not None:
                q = f"{relmod}:{cls.name}.{node.name}"
            elif parent is not None:
                q = f"{parent.qual}.<locals>.{node.name}"
            else:
                q = f"{relmod}:{node.name}"
            f = Func(node.name, q, m, node, cls, parent)
            self.functions[q] = f
            for sub in ast.walk(node):
                if sub is not node and isinstance(sub, (ast.FunctionDef, ast.AsyncFunctionDef)):
                    # only direct nesting level is registered (enough for this repository)
                    pass
            for st in node.body:
                if isinstance(st, (ast.FunctionDef, ast.AsyncFunctionDef)):
                    add_func(st, None, f)
            return f

        for st in m.tree.body:
            if isinstance(st, (ast.FunctionDef, ast.AsyncFunctionDef)):
                m.functions[st.name] = add_func(st)
            elif isinstance(st, ast.ClassDef):
                c = Class(st.name, f"{relmod}:{st.name}", m, st, base_exprs=list(st.bases))
                m.classes[st.name] = c
                self.classes[c.qual] = c
                for s2 in st.body:
                    if isinstance(s2, (ast.FunctionDef, ast.AsyncFunctionDef)):
                        c.methods[s2.name] = add_func(s2, c)
            elif isinstance(st, ast.Assign) and len(st.targets) == 1 and isinstance(st.targets[0], ast.Name):
                m.assigns[st.targets[0].id] = st.value
            elif isinstance(st, ast.AnnAssign) and isinstance(st.target, ast.Name) and st.value is not None:
                m.assigns[st.target.id] = st.value

    # -- lookup -------------------------------------------------------------------------
    def module(self, rel: str) -> Module:
        name = PKG if rel == "" else f"{PKG}.{rel}"
        if name not in self.modules:
            raise AnchorMissing(f"module {name}")
        return self.modules[name]

    def func(self, ref: str) -> Func:
        """Find a function by qualified name 'mod:Class.meth' / 'mod:func', or by a unique
        short form 'Class.meth' / 'func'. Raises AnchorMissing."""
        if ref in self.functions:
            return self.functions[ref]
        short = ref.split(":")[-1]
        cands = [f for q, f in self.functions.items() if q.split(":")[-1] == short]
        if len(cands) == 1:
            return cands[0]
        if not cands:
            f = self._resolve_renamed(ref)
            if f is not None:
                return f
            raise AnchorMissing(f"function {ref}")
        raise AnchorMissing(f"function {ref} ambiguous: {[c.qual for c in cands]}")

    # -- anchors that were renamed ----------------------------------------------------------
    def _resolve_renamed(self, ref: str) -> Optional[Func]:
        """A rule starts from a named function.  When that name is gone, the function is
        located through the frozen base corpus: the one function of the current tree that has
        a name the base does not know, lives in the same kind of container (module level / class
        of the same name), and has the base function's parameter list and/or is called from the
        same callers.  Only *where* a rule starts is decided here; the rule then decides on the
        code it finds.  No unique candidate -> None (the caller raises AnchorMissing)."""
        memo = self.__dict__.setdefault("renamed", {})
        if ref in memo:
            return memo[ref]
        memo[ref] = None
        base = _base_program()
        if base is None or base is self:
            return None
        try:
            bf = base.func(ref)
        except AnchorMissing:
            return None
        if bf is None or bf.parent is not None:
            return None
        base_short = {(g.cls.name if g.cls else None, g.name) for g in base.functions.values() if g.parent is None}
        owner = bf.cls.name if bf.cls else None
        pnames = tuple(p.name for p in bf.params)

        def callers(prog, name, skip):
            out = set()
            for g in prog.functions.values():
                if g.qual == skip:
                    continue
                for n in ast.walk(g.node):
                    if isinstance(n, ast.Call):
                        fn = n.func
                        nm = fn.id if isinstance(fn, ast.Name) else fn.attr if isinstance(fn, ast.Attribute) else None
                        if nm == name or (nm and name.startswith("__") and nm.endswith(name)):
                            out.add((g.cls.name if g.cls else None, g.name))
            return out

        bcallers = callers(base, bf.name, bf.qual)
        cands = []
        for g in self.functions.values():
            if g.parent is not None or (g.cls.name if g.cls else None) != owner:
                continue
            if (owner, g.name) in base_short:
                continue  # a function the base already knows under this name
            same_params = tuple(p.name for p in g.params) == pnames
            shared = bool(bcallers & callers(self, g.name, g.qual))
            if same_params or shared:
                cands.append((same_params and shared, same_params, shared, g))
        for level in (0, 1, 2):
            sel = [c[3] for c in cands if c[level]]
            if len(sel) == 1:
                memo[ref] = sel[0]
                return sel[0]
            if len(sel) > 1 and level == 0:
                return None
        return None

    def is_anchor(self, name: str, ref: str) -> bool:
        """Does the (qualified or short) callee name denote the anchor function `ref`
        (under its current name, also when it was renamed)?"""
        try:
            f = self.func(ref)
        except AnchorMissing:
            return False
        short = name.split(":")[-1].split(".")[-1]
        return name == f.qual or short == f.name or (f.name.startswith("__") and short.endswith(f.name))

    def anchor_name(self, ref: str) -> str:
        """Current short name of the anchor function."""
        return self.func(ref).name

    def method(self, cls: "Class", name: str) -> Optional[Func]:
        """cls.lookup(name), falling back to the renamed-anchor search for private methods."""
        m = cls.lookup(name)
        if m is not None:
            return m
        for c in cls.mro():
            try:
                return self.func(f"{c.qual}.{name}")
            except AnchorMissing:
                continue
        return None

    def try_func(self, ref: str) -> Optional[Func]:
        try:
            return self.func(ref)
        except AnchorMissing:
            return None

    def cls(self, ref: str) -> Class:
        if ref in self.classes:
            return self.classes[ref]
        short = ref.split(":")[-1]
        cands = [c for q, c in self.classes.items() if c.name == short]
        if len(cands) == 1:
            return cands[0]
        if not cands:
            raise AnchorMissing(f"class {ref}")
        raise AnchorMissing(f"class {ref} ambiguous: {[c.qual for c in cands]}")

    def try_cls(self, ref: str) -> Optional[Class]:
        try:
            return self.cls(ref)
        except AnchorMissing:
            return None

    def methods_named(self, name: str) -> list[Func]:
        return [f for f in self.functions.values() if f.cls is not None and f.name == name]

    # -- symbol resolution --------------------------------------------------------------
    def resolve_import(self, modname: str, attr: Optional[str], depth: int = 0):
        """Follow an import to a Func / Class / Module / ('global', Module, name) / None."""
        if depth > 8:
            return None
        if attr is None:
            return self.modules.get(modname)
        sub = f"{modname}.{attr}"
        if modname in self.modules:
            m = self.modules[modname]
            if attr in m.functions:
                return m.functions[attr]
            if attr in m.classes:
                return m.classes[attr]
            if attr in m.assigns:
                return ("global", m, attr)
            if attr in m.imports:
                mm, aa = m.imports[attr]
                return self.resolve_import(mm, aa, depth + 1)
        if sub in self.modules:
            return self.modules[sub]
        return None

    def resolve_name(self, m: Module, name: str):
        if name in m.functions:
            return m.functions[name]
        if name in m.classes:
            return m.classes[name]
        if name in m.assigns:
            return ("global", m, name)
        if name in m.imports:
            mm, aa = m.imports[name]
            r = self.resolve_import(mm, aa)
            if r is None:
                return ("external", mm if aa is None else f"{mm}.{aa}")
            return r
        return None

    def resolve_dotted(self, m: Module, e: ast.expr):
        """Resolve Name / Attribute chains that denote module-level symbols."""
        if isinstance(e, ast.Name):
            return self.resolve_name(m, e.id)
        if isinstance(e, ast.Attribute):
            base = self.resolve_dotted(m, e.value)
            if isinstance(base, Module):
                return self.resolve_import(base.name, e.attr)
            if isinstance(base, tuple) and base[0] == "external":
                return ("external", f"{base[1]}.{e.attr}")
            if isinstance(base, Class):
                meth = base.lookup(e.attr)
                if meth is not None:
                    return meth
                ca = base.class_assigns()
                if e.attr in ca:
                    return ("member", base, e.attr)
        return None

    def resolve_class_expr(self, m: Module, e: ast.expr) -> Optional[Class]:
        r = self.resolve_dotted(m, e)
        return r if isinstance(r, Class) else None

    def external_name(self, m: Module, e: ast.expr) -> Optional[str]:
        """Dotted external name of an expression like np.sum -> 'numpy.sum'."""
        r = self.resolve_dotted(m, e)
        if isinstance(r, tuple) and r[0] == "external":
            return r[1]
        return None

    # -- annotations / light type inference ----------------------------------------------
    def annotation_classes(self, m: Module, ann: Optional[ast.expr]) -> list[Class]:
        """Internal classes named by an annotation (unions flattened, strings parsed)."""
        if ann is None:
            return []
        if isinstance(ann, ast.Constant) and isinstance(ann.value, str):
            try:
                ann = ast.parse(ann.value, mode="eval").body
            except SyntaxError:
                return []
        if isinstance(ann, ast.BinOp) and isinstance(ann.op, ast.BitOr):
            return self.annotation_classes(m, ann.left) + self.annotation_classes(m, ann.right)
        if isinstance(ann, ast.Subscript):
            d = dotted(ann.value)
            if d in ("Optional", "typing.Optional", "Union", "typing.Union"):
                sl = ann.slice
                elts = sl.elts if isinstance(sl, ast.Tuple) else [sl]
                out = []
                for x in elts:
                    out += self.annotation_classes(m, x)
                return out
            return []
        c = self.resolve_class_expr(m, ann)
        return [c] if c else []

    def attr_types(self, c: Class) -> dict[str, list[Class]]:
        """Types of instance attributes assigned in __init__ from annotated parameters or
        constructor calls (mangled names)."""
        out: dict[str, list[Class]] = {}
        for k in c.mro():
            init = k.methods.get("__init__")
            if init is None:
                continue
            ptypes = {p.name: self.annotation_classes(k.module, p.annotation) for p in init.params}
            sn = init.self_name
            for st in ast.walk(init.node):
                if isinstance(st, (ast.Assign, ast.AnnAssign)):
                    tgts = st.targets if isinstance(st, ast.Assign) else [st.target]
                    val = st.value
                    for t in tgts:
                        if isinstance(t, ast.Attribute) and isinstance(t.value, ast.Name) and t.value.id == sn:
                            name = k.mangle(t.attr)
                            tys: list[Class] = []
                            if isinstance(st, ast.AnnAssign):
                                tys = self.annotation_classes(k.module, st.annotation)
                            if not tys and val is not None:
                                tys = self._expr_types_simple(k.module, val, ptypes)
                            if tys and name not in out:
                                out[name] = tys
        return out

    def enum_value_classes(self, c: Class) -> list[Class]:
        """Package classes constructed as member values of an enum-like class
        (Metric.X = _Metric(...)  ->  [_Metric];  InputType.X = SemanticPair -> [])."""
        out: list[Class] = []
        for k in c.mro():
            for name, val in k.class_assigns().items():
                if isinstance(val, ast.Call):
                    r = self.resolve_class_expr(k.module, val.func)
                    if r is not None and r not in out:
                        out.append(r)
        return out

    def _expr_types_simple(self, m: Module, e: ast.expr, env: dict[str, list[Class]]) -> list[Class]:
        if isinstance(e, ast.Name):
            return env.get(e.id, [])
        if isinstance(e, ast.Call):
            r = self.resolve_dotted(m, e.func)
            if isinstance(r, Class):
                return [r]
            if isinstance(r, Func):
                return self.annotation_classes(r.module, r.node.returns)
        if isinstance(e, ast.IfExp):
            return self._expr_types_simple(m, e.body, env) + self._expr_types_simple(m, e.orelse, env)
        return []

    def local_types(self, f: Func) -> dict[str, list[Class]]:
        """Flow-insensitive local variable -> classes (parameters, constructor calls,
        calls of annotated functions, self attributes)."""
        env: dict[str, list[Class]] = {}
        for p in f.params:
            tys = self.annotation_classes(f.module, p.annotation)
            if tys:
                env[p.name] = tys
        if f.cls is not None and f.self_name:
            env[f.self_name] = [f.cls]
        for _ in range(2):
            for st in ast.walk(f.node):
                if isinstance(st, ast.Assign) and len(st.targets) == 1 and isinstance(st.targets[0], ast.Name):
                    tys = self.expr_types(f, st.value, env)
                    if tys:
                        env.setdefault(st.targets[0].id, tys)
                elif isinstance(st, ast.AnnAssign) and isinstance(st.target, ast.Name):
                    tys = self.annotation_classes(f.module, st.annotation)
                    if tys:
                        env.setdefault(st.target.id, tys)
                elif isinstance(st, ast.With):
                    for it in st.items:
                        if isinstance(it.optional_vars, ast.Name):
                            tys = self.expr_types(f, it.context_expr, env)
                            if tys:
                                env.setdefault(it.optional_vars.id, tys)
        return env

    def expr_types(self, f: Func, e: ast.expr, env: dict[str, list[Class]]) -> list[Class]:
        m = f.module
        if isinstance(e, ast.Name):
            if e.id in env:
                return env[e.id]
            return []
        if isinstance(e, ast.Attribute):
            base = self.expr_types(f, e.value, env)
            out: list[Class] = []
            for b in base:
                ctx_cls = f.cls
                name = e.attr
                # private-name mangling happens relative to the class whose body we are in
                if name.startswith("__") and not name.endswith("__") and ctx_cls is not None:
                    name = ctx_cls.mangle(name)
                at = self.attr_types(b)
                if name in at:
                    out += at[name]
                    continue
                meth = b.lookup(e.attr)
                if meth is not None and meth.is_property:
                    out += self.annotation_classes(meth.module, meth.node.returns)
                    continue
                if e.attr in ("value", "_value_"):
                    out += self.enum_value_classes(b)
            return out
        if isinstance(e, ast.Call):
            r = self.resolve_dotted(m, e.func)
            if isinstance(r, Class):
                return [r]
            if isinstance(r, Func):
                return self.annotation_classes(r.module, r.node.returns)
            if isinstance(e.func, ast.Attribute):
                callees = self.resolve_call(f, e, env)
                out = []
                for c in callees:
                    if isinstance(c, Func):
                        out += self.annotation_classes(c.module, c.node.returns)
                return out
        if isinstance(e, ast.IfExp):
            return self.expr_types(f, e.body, env) + self.expr_types(f, e.orelse, env)
        return []

    # -- call resolution ------------------------------------------------------------------
    def resolve_call(self, f: Func, call: ast.Call, env: Optional[dict[str, list[Class]]] = None, fanout: bool = True) -> list:
        """Possible internal callees of a call (Func objects; a Class means its __init__ is
        missing/inherited from outside).  External callees give []."""
        if env is None:
            env = self.local_types(f)
        fn = call.func
        m = f.module
        out: list = []
        if isinstance(fn, ast.Name):
            # nested function?
            for q, g in self.functions.items():
                if g.parent is f and g.name == fn.id:
                    return [g]
            if fn.id in env and env[fn.id]:
                # calling an instance -> __call__
                for c in env[fn.id]:
                    mm = c.lookup("__call__")
                    if mm:
                        out.append(mm)
                if out:
                    return out
            r = self.resolve_name(m, fn.id)
            if isinstance(r, Func):
                return [r]
            if isinstance(r, Class):
                init = r.lookup("__init__")
                return [init] if init else [r]
            return []
        if isinstance(fn, ast.Attribute):
            r = self.resolve_dotted(m, fn)
            if isinstance(r, Func):
                return [r]
            if isinstance(r, Class):
                init = r.lookup("__init__")
                return [init] if init else [r]
            if isinstance(r, tuple) and r[0] == "external":
                return []
            # super().m(...)
            if isinstance(fn.value, ast.Call) and isinstance(fn.value.func, ast.Name) and fn.value.func.id == "super" and f.cls:
                for b in f.cls.mro()[1:]:
                    if fn.attr in b.methods:
                        return [b.methods[fn.attr]]
                return []
            # the attribute itself is a typed callable object (self._matching_metric(...))
            vtypes = self.expr_types(f, fn, env)
            if vtypes:
                for c in vtypes:
                    mm = c.lookup("__call__")
                    if mm is not None:
                        out.append(mm)
                if out:
                    return out
            # typed receiver
            rtypes = self.expr_types(f, fn.value, env)
            if rtypes:
                for c in rtypes:
                    mm = c.lookup(fn.attr)
                    if mm is not None:
                        out.append(mm)
                    if fanout:
                        for sc in c.all_subclasses():
                            if fn.attr in sc.methods and sc.methods[fn.attr] not in out:
                                out.append(sc.methods[fn.attr])
                if out:
                    return out
            # external module receiver?  (np.foo, os.path.x)
            d = dotted(fn)
            if d:
                head = d.split(".")[0]
                if head in m.imports and self.resolve_name(m, head) is not None and not isinstance(self.resolve_name(m, head), (Func, Class, Module)):
                    rn = self.resolve_name(m, head)
                    if isinstance(rn, tuple) and rn[0] == "external":
                        return []
            # last resort: method name unique within the package (or one hierarchy)
            cands = self.methods_named(fn.attr)
            if cands and fn.attr not in _COMMON_EXTERNAL_METHODS:
                return cands if fanout else cands[:1]
        return out

    # -- AST helpers ----------------------------------------------------------------------
    def parents(self, f: Func) -> dict[int, ast.AST]:
        key = id(f.node)
        if key not in self._parents:
            pm: dict[int, ast.AST] = {}
            for n in ast.walk(f.node):
                for ch in ast.iter_child_nodes(n):
                    pm[id(ch)] = n
            self._parents[key] = pm
        return self._parents[key]

    def calls_in(self, f: Func, include_nested: bool = False) -> Iterator[ast.Call]:
        for n in walk_no_nested(f.node) if not include_nested else ast.walk(f.node):
            if isinstance(n, ast.Call):
                yield n

    def package_functions(self) -> list[Func]:
        return [f for f in self.functions.values() if f.module.name.startswith(PKG)]


# method names that are too generic for the "unique method name" fallback
_COMMON_EXTERNAL_METHODS = {
    "copy", "keys", "values", "items", "get", "append", "extend", "sum", "max", "min", "mean", "astype",
    "exists", "join", "split", "lower", "upper", "format", "any", "all", "index", "close", "write",
    "read", "sort", "pop", "update", "add", "remove", "startswith", "endswith", "name", "value",
    "load", "dump", "print", "rule", "line", "register_class", "joinpath", "mkdir", "writerow",
    "starmap", "map", "tolist", "flatten", "reshape", "std", "rsplit", "strip", "replace",
}


def walk_no_nested(node: ast.AST) -> Iterator[ast.AST]:
    """ast.walk that does not descend into nested function/class/lambda definitions
    (the root itself is walked)."""
    stack = [node]
    first = True
    while stack:
        n = stack.pop()
        if not first and isinstance(n, (ast.FunctionDef, ast.AsyncFunctionDef, ast.ClassDef, ast.Lambda)):
            continue
        first = False
        yield n
        stack.extend(reversed(list(ast.iter_child_nodes(n))))


def bind_args(callee: Func, call: ast.Call, drop_self: bool = True) -> tuple[dict[str, ast.expr], list[str]]:
    """Bind a call's actual arguments to the callee's parameter names.
    Returns (binding, problems).  *args/**kwargs actuals are reported as problems."""
    params = callee.call_params if drop_self else callee.params
    pos = [p for p in params if p.kind == "pos"]
    names = {p.name for p in params if p.kind in ("pos", "kwonly")}
    binding: dict[str, ast.expr] = {}
    problems: list[str] = []
    i = 0
    for a in call.args:
        if isinstance(a, ast.Starred):
            problems.append("starred positional")
            continue
        if i < len(pos):
            binding[pos[i].name] = a
        else:
            if not any(p.kind == "vararg" for p in params):
                problems.append(f"too many positionals ({i})")
        i += 1
    for kw in call.keywords:
        if kw.arg is None:
            problems.append("**kwargs actual")
            continue
        if kw.arg in names:
            binding[kw.arg] = kw.value
        elif not any(p.kind == "kwarg" for p in params):
            problems.append(f"unknown keyword {kw.arg}")
        else:
            binding[kw.arg] = kw.value
    return binding, problems
