"""Abstract evaluation of small, loop-free (or concretely bounded) function bodies.

This is *not* execution of panoptica: the interpreter walks the AST of a function taken from
the program model and computes over abstract values chosen by a rule (representatives of
sign/ordering classes, symbolic atoms, Venn-region sets, exact rational functions).  Anything
outside the modelled subset raises Undecided.  Conditions whose truth is not determined by
the abstract values are split: every feasible decision sequence is enumerated (the analysed
functions are a few statements long), giving a path-sensitive abstract interpretation.
"""

from __future__ import annotations

import ast
import re
import operator
from dataclasses import dataclass, field
from fractions import Fraction
from typing import Any, Callable, Optional

from .model import Class, Func, Module, Program, Undecided, dotted, norm


class Sym:
    """Opaque named symbol (enum member, external object, symbolic parameter)."""

    __slots__ = ("name",)

    def __init__(self, name: str):
        self.name = name

    def __eq__(self, o):
        return isinstance(o, Sym) and o.name == self.name

    def __hash__(self):
        return hash(("Sym", self.name))

    def __repr__(self):
        return f"<{self.name}>"


class EnumSym(Sym):
    """Member of an enum-like package class: Sym('<Class>.<member>') that knows both."""

    __slots__ = ("cls", "member")

    def __init__(self, cls, member: str):
        super().__init__(f"{cls.name}.{member}")
        self.cls = cls
        self.member = member


class Unknown:
    """A value the abstract domain knows nothing about; its truth is split."""

    __slots__ = ("tag", "pv")

    def __init__(self, tag: str = "?"):
        self.tag = tag
        self.pv = None

    def __repr__(self):
        return f"Unknown({self.tag})"


_CONSUMERS = ("min", "max", "sum", "list", "tuple", "set", "frozenset", "sorted", "any", "all", "zip", "enumerate", "dict", "reversed", "map", "filter")


class GenV(list):
    """the items of a generator expression; `spent` once something has iterated over it"""

    spent = False

    def take(self):
        if self.spent:
            return []
        self.spent = True
        return list(self)


class RepeatV:
    """itertools.repeat(x): x over and over"""

    def __init__(self, value):
        self.value = value


@dataclass
class Obj:
    cls: Class
    attrs: dict = field(default_factory=dict)

    def __hash__(self):
        return id(self)

    def __eq__(self, o):
        return self is o


@dataclass
class SuperProxy:
    obj: Any
    after: Any  # Class whose MRO successors are searched


@dataclass
class Closure:
    node: ast.Lambda
    env: dict
    interp: "Interp"


@dataclass
class BoundMethod:
    func: Func
    self_obj: Any


class ItemGetter:
    """operator.itemgetter(i) / operator.attrgetter(name) with one key."""

    def __init__(self, kind: str, key):
        self.kind = kind
        self.key = key


class PartialV:
    """functools.partial(f, *args, **kwargs)"""

    def __init__(self, f, args, kwargs):
        self.f = f
        self.args = list(args)
        self.kwargs = dict(kwargs)


class CountIter:
    """itertools.count(start, step): unbounded, only consumable through zip()."""

    def __init__(self, start, step):
        self.start = start
        self.step = step


class Sentinel:
    """Result of `object()`: only its identity is observable."""

    def __repr__(self):
        return f"<object {id(self):x}>"


@dataclass(eq=False)
class LocalDef:
    """A function defined inside a function: the enclosing environment is captured by
    reference (late binding, as in Python); defaults are evaluated at definition time."""

    node: ast.FunctionDef
    env: dict
    interp: "Interp"
    defaults: dict


class _VecM:
    def __init__(self, v, name):
        self.v, self.name = v, name


class Vec(list):
    """A concrete one-dimensional numpy vector (label vectors, boolean selections of them): the value of
    numpy's set routines on concrete sequences.  A list, so everything written for lists reads it; in
    addition `~v`, `v[mask]`, `v.size`, `v.tolist()` ... have their numpy meaning."""


@dataclass(eq=False)
class RawFunc:
    """A package function as handed to its own decorators: calling it runs the undecorated body."""

    func: "Func"


class RaiseSignal(Exception):
    def __init__(self, exc_name: str, node: ast.AST, payload=None):
        self.exc_name = exc_name
        self.node = node
        self.payload = payload


class _Return(Exception):
    def __init__(self, value, node):
        self.value = value
        self.node = node


class _Break(Exception):
    pass


class _Continue(Exception):
    pass


@dataclass
class Outcome:
    kind: str  # 'return' | 'raise' | 'end'
    value: Any
    node: Optional[ast.AST]
    decisions: list  # (node, cond value, bool)
    env: dict
    exc: Optional[str] = None


_BINOPS = {
    ast.Add: operator.add,
    ast.Sub: operator.sub,
    ast.Mult: operator.mul,
    ast.Div: operator.truediv,
    ast.FloorDiv: operator.floordiv,
    ast.Mod: operator.mod,
    ast.Pow: operator.pow,
    ast.BitAnd: operator.and_,
    ast.BitOr: operator.or_,
    ast.BitXor: operator.xor,
    ast.LShift: operator.lshift,
    ast.RShift: operator.rshift,
}
_CMPOPS = {
    ast.Eq: operator.eq,
    ast.NotEq: operator.ne,
    ast.Lt: operator.lt,
    ast.LtE: operator.le,
    ast.Gt: operator.gt,
    ast.GtE: operator.ge,
}
CONCRETE = (bool, int, float, Fraction, str, bytes, type(None), tuple, list, dict, set, frozenset)
_MATH_FUNCS = {"log2", "log10", "log", "ceil", "floor", "sqrt", "exp", "pow", "fabs", "trunc", "isqrt", "log1p"}


def is_concrete(v) -> bool:
    if isinstance(v, (tuple, list, set, frozenset)):
        return all(is_concrete(x) for x in v)
    if isinstance(v, dict):
        return all(is_concrete(x) for x in v.values())
    return isinstance(v, CONCRETE) or isinstance(v, Sym)


class Interp:
    max_depth = 8
    _defaults_pending = False
    max_steps = 20000

    def __init__(self, prog: Program, func: Func, args: dict, self_obj: Any = None, prefix: Optional[list[bool]] = None, depth: int = 0, root: Optional["Interp"] = None):
        self.prog = prog
        self.func = func
        self.module: Module = func.module
        self.env: dict[str, Any] = dict(args)
        self.depth = depth
        self.root = root or self
        if root is None:
            self.prefix = list(prefix or [])
            self.taken: list = []
            self.steps = 0
        if func.self_name and self_obj is not None:
            self.env[func.self_name] = self_obj
        if root is None:
            # parameters not supplied by the rule take their declared default
            try:
                self._bind_defaults()
            except AttributeError:
                # a default expression needs state a subclass sets up after this constructor: bind at the first step
                self._defaults_pending = True

    def _bind_defaults(self):
        self._defaults_pending = False
        func = self.func
        for p in func.params:
            if p.name not in self.env and p.default is not None and p.kind in ("pos", "kwonly"):
                self.env[p.name] = self.default_value(func, p)
            elif p.name not in self.env and p.kind == "vararg":
                self.env[p.name] = ()
            elif p.name not in self.env and p.kind == "kwarg":
                self.env[p.name] = {}

    # ------------------------------------------------------------------ decisions
    def decide(self, node: ast.AST, value) -> bool:
        r = self.root
        memo = r.__dict__.setdefault("_decided", {})
        if isinstance(value, Unknown) and id(value) in memo:
            return memo[id(value)][1]
        i = len(r.taken)
        d = r.prefix[i] if i < len(r.prefix) else True
        r.taken.append((node, value, d))
        if isinstance(value, Unknown):
            memo[id(value)] = (value, d)  # keep the object alive so ids stay unique
        return d

    def truth(self, v, node) -> bool:
        if isinstance(v, Unknown):
            return self.decide(node, v)
        if isinstance(v, (Sym, Obj, Closure, BoundMethod, Func, Class, LocalDef, Sentinel, ItemGetter, PartialV)):
            return True
        if isinstance(v, CONCRETE):
            return bool(v)
        return self.truth_hook(v, node)

    def truth_hook(self, v, node) -> bool:
        return self.decide(node, v)

    # ------------------------------------------------------------------ hooks
    def load_global(self, name: str, node):
        r = self.prog.resolve_name(self.module, name)
        if isinstance(r, (Func, Class)):
            return r
        if isinstance(r, Module):
            return Sym("module:" + r.name)
        if isinstance(r, tuple) and r[0] == "global":
            _, m, n = r
            cache = self.root.__dict__.setdefault("_global_sentinels", {})
            if (m.name, n) in cache:
                return cache[(m.name, n)]
            sub = self.__class__.__new__(self.__class__)
            sub.__dict__.update(self.__dict__)
            sub.module = m
            sub.env = {}
            v = sub.eval(m.assigns[n])
            if isinstance(v, Sentinel):
                cache[(m.name, n)] = v  # a module-level `object()` is one object
            return v
        if isinstance(r, tuple) and r[0] == "external":
            return Sym("ext:" + r[1])
        if name in _BUILTIN_SYMS:
            return Sym("builtin:" + name)
        if name in ("Ellipsis", "NotImplemented", "__debug__"):
            return {"Ellipsis": Ellipsis, "NotImplemented": NotImplemented, "__debug__": True}[name]
        if name in _local_names(self.func):
            # a local that is read before any assignment on this path
            raise RaiseSignal("UnboundLocalError", node, payload=name)
        raise Undecided(f"unbound name {name} in {self.func.qual}")

    def get_attr(self, base, attr: str, node):
        if isinstance(base, Vec):
            if attr == "size":
                return len(base)
            if attr == "shape":
                return (len(base),)
            if attr == "ndim":
                return 1
            if attr in ("tolist", "all", "any", "sum", "copy", "astype", "max", "min", "nonzero", "item"):
                return _VecM(base, attr)
        if isinstance(base, RawFunc):
            f_ = base.func
            if attr == "__name__":
                return f_.name
            if attr == "__qualname__":
                return f"{f_.cls.name}.{f_.name}" if f_.cls is not None else f_.name
            if attr == "__module__":
                return f_.module.name
            if attr == "__doc__":
                return ast.get_docstring(f_.node)
            if attr == "__wrapped__":
                raise RaiseSignal("AttributeError", node)
            return Unknown(f"function.{attr}")
        if isinstance(base, Obj):
            if attr == "__class__":
                return base.cls
            name = attr
            if attr.startswith("__") and not attr.endswith("__") and self.func.cls is not None:
                name = self.func.cls.mangle(attr)
            if name in base.attrs:
                return base.attrs[name]
            m = base.cls.lookup(attr)
            if m is not None:
                if m.is_property:
                    v = self.call_func(m, [], {}, node, self_obj=base)
                    if m.is_cached_property:
                        base.attrs[name] = v  # computed once per object, then an instance attribute
                    return v
                return BoundMethod(m, base)
            ca = None
            for k in base.cls.mro():
                ca = k.class_assigns().get(attr)
                if ca is not None:
                    return self.eval_in_module(k.module, ca)
                # annotated class attribute with a value (dataclass field default)
                for st in k.node.body:
                    if isinstance(st, ast.AnnAssign) and isinstance(st.target, ast.Name) and st.target.id == attr and st.value is not None:
                        if isinstance(st.value, ast.Call) and (dotted(st.value.func) or "").split(".")[-1] == "field":
                            df = next((kw.value for kw in st.value.keywords if kw.arg == "default_factory"), None)
                            dv = next((kw.value for kw in st.value.keywords if kw.arg == "default"), None)
                            if df is not None:
                                v = self.apply(self.eval_in_module(k.module, df), [], {}, node)
                                base.attrs[name] = v  # one object per instance
                                return v
                            if dv is not None:
                                return self.eval_in_module(k.module, dv)
                            break
                        return self.eval_in_module(k.module, st.value)
            ga = base.cls.lookup("__getattr__")
            if ga is not None and not (self.func is ga and self.env.get(ga.self_name) is base):
                # the class's own fallback for names that are not found the ordinary way
                return self.call_func(ga, [attr], {}, node, self_obj=base)
            raise Undecided(f"attribute {attr} of {base.cls.name} object unknown")
        if isinstance(base, Class):
            ca = base.class_assigns()
            if attr in ca:
                enum_like = any((dotted(b) or "").split(".")[-1] in ("Enum", "IntEnum", "StrEnum", "Flag", "IntFlag") for k in base.mro() for b in k.node.bases)
                if enum_like and not isinstance(ca[attr], (ast.Tuple, ast.List, ast.Dict, ast.Set)) and not attr.startswith("_"):
                    return self.class_member(base, attr, node)
                if not enum_like:
                    return self.eval_in_module(base.module, ca[attr])  # an ordinary class attribute: its value
                return self.class_member(base, attr, node)
            for k in base.mro()[1:]:
                if attr in k.class_assigns() and not any((dotted(b) or "").split(".")[-1] in ("Enum", "IntEnum", "StrEnum", "Flag", "IntFlag") for k2 in k.mro() for b in k2.node.bases):
                    return self.eval_in_module(k.module, k.class_assigns()[attr])  # inherited class attribute
            m = base.lookup(attr)
            if m is not None:
                return BoundMethod(m, base) if m.is_classmethod else m
            if attr == "__members__":
                # enum class: member name -> member, in definition order
                return {n: self.class_member(base, n, node) for n in base.class_assigns() if not n.startswith("_")}
            if attr == "__name__":
                return base.name
            raise Undecided(f"class attribute {base.name}.{attr}")
        if type(base).__name__ in ("SimpleNamespace", "NoneResult") and hasattr(base, attr):
            return getattr(base, attr)
        if isinstance(base, SuperProxy):
            mro = base.obj.cls.mro() if isinstance(base.obj, Obj) else base.obj.mro() if isinstance(base.obj, Class) else []
            if base.after in mro:
                for k in mro[mro.index(base.after) + 1 :]:
                    if attr in k.methods:
                        return BoundMethod(k.methods[attr], base.obj)
            return Sym(f"super.{attr}")
        if isinstance(base, EnumSym):
            if attr in ("name", "_name_"):
                return base.member
            m = base.cls.lookup(attr)
            if m is not None:
                if m.is_property:
                    return self.call_func(m, [], {}, node, self_obj=base)
                return BoundMethod(m, base)
            return Sym(f"{base.name}.{attr}")
        if isinstance(base, Sym):
            if base.name.startswith("module:"):
                r = self.prog.resolve_import(base.name[7:], attr)
                if isinstance(r, (Func, Class)):
                    return r
            if attr in ("kind", "itemsize", "name") and base.name.startswith("ext:numpy."):
                # the dtype of an array is modelled by its scalar type
                m = re.fullmatch(r"ext:numpy\.(uint|int|float)(8|16|32|64)", base.name)
                if m:
                    return {"kind": {"uint": "u", "int": "i", "float": "f"}[m.group(1)], "itemsize": int(m.group(2)) // 8, "name": m.group(1) + m.group(2)}[attr]
                if base.name == "ext:numpy.bool_":
                    return {"kind": "b", "itemsize": 1, "name": "bool"}[attr]
            return Sym(f"{base.name}.{attr}")
        if isinstance(base, int) and not isinstance(base, bool) and attr in ("bit_length", "bit_count"):
            return _PyMethod(base, attr)
        if isinstance(base, bytes) and attr in ("decode", "split", "strip", "startswith", "endswith", "splitlines"):
            return _PyMethod(base, attr)
        if isinstance(base, dict) and attr in ("keys", "values", "items", "get"):
            return Sym(f"dictmethod:{attr}"), base  # handled in call
        if isinstance(base, list) and attr in ("append", "extend", "insert", "pop", "remove", "clear", "index", "count", "copy", "reverse"):
            return _PyMethod(base, attr)
        if isinstance(base, list) and attr == "sort" and all(isinstance(x, (int, float, Fraction, str)) and not isinstance(x, bool) for x in base):
            return _PyMethod(base, attr)  # concrete elements: sorted in place like the real list
        if isinstance(base, dict) and attr in ("update", "setdefault", "pop", "copy", "clear"):
            return _PyMethod(base, attr)
        if isinstance(base, (set, frozenset)) and attr in ("isdisjoint", "issubset", "issuperset", "union", "intersection", "difference", "symmetric_difference"):
            return _PyMethod(base, attr)
        if isinstance(base, set) and attr in ("add", "discard", "remove", "update", "copy"):
            return _PyMethod(base, attr)
        if isinstance(base, tuple) and attr in ("index", "count"):
            return _PyMethod(base, attr)
        return self.attr_hook(base, attr, node)

    def attr_hook(self, base, attr, node):
        return Unknown(f"{base!r}.{attr}")

    def class_member(self, cls: Class, attr: str, node):
        """Enum-like member access Class.MEMBER -> symbol."""
        return EnumSym(cls, attr)

    def _vec_call(self, name: str, args: list, kwargs: dict, node):
        """numpy's set routines and selections on concrete sequences (lists / tuples / Vec of scalars)"""
        short = name[6:]
        seq = lambda x: isinstance(x, (list, tuple)) and not any(isinstance(y, (list, tuple, dict, Unknown)) for y in x)
        def member(x, ys):
            return any(self.truth(self.compare(ast.Eq(), x, y, node), node) for y in ys)
        def ordered(xs):
            xs = list(xs)
            return Vec(sorted(xs)) if all(isinstance(x, (int, float, Fraction)) and not isinstance(x, bool) for x in xs) else Vec(xs)
        def dedupe(xs):
            out = []
            for x in xs:
                if not member(x, out):
                    out.append(x)
            return out
        if short in ("intersect1d", "setdiff1d", "union1d", "setxor1d") and len(args) == 2 and seq(args[0]) and seq(args[1]) and not (set(kwargs) - {"assume_unique"}):
            a, b = list(args[0]), list(args[1])
            if short == "intersect1d":
                return ordered(dedupe(x for x in a if member(x, b)))
            if short == "setdiff1d":
                return ordered(dedupe(x for x in a if not member(x, b)))
            if short == "union1d":
                return ordered(dedupe(a + b))
            return ordered(dedupe([x for x in a if not member(x, b)] + [x for x in b if not member(x, a)]))
        if short in ("isin", "in1d") and len(args) == 2 and seq(args[1]) and not (set(kwargs) - {"assume_unique", "invert", "kind"}):
            inv = kwargs.get("invert", False)
            if isinstance(inv, bool):
                if seq(args[0]):
                    return Vec((member(x, args[1]) != inv) for x in args[0])
                if isinstance(args[0], (int, Sym)) and not isinstance(args[0], bool):
                    return member(args[0], args[1]) != inv
        plain = lambda xs: all(isinstance(x, (str, int, float, Fraction, Sym)) for x in xs)
        if short in ("asarray", "array", "atleast_1d", "asanyarray", "ascontiguousarray") and len(args) == 1 and seq(args[0]) and not (set(kwargs) - {"dtype", "copy"}) and (isinstance(args[0], (Vec, tuple)) or plain(args[0])):
            dt_ = kwargs.get("dtype")
            if dt_ is None or isinstance(args[0], Vec) or (isinstance(dt_, Sym) and dt_.name in ("builtin:str", "builtin:object") and all(isinstance(x, str) for x in args[0])) or not isinstance(dt_, Sym) or dt_.name not in ("builtin:str",):
                return Vec(args[0])
        sortable = lambda xs: xs and (all(isinstance(x, str) for x in xs) or all(isinstance(x, (int, float, Fraction)) and not isinstance(x, bool) for x in xs))
        if short == "sort" and len(args) == 1 and seq(args[0]) and sortable(list(args[0])) and not kwargs:
            return Vec(sorted(args[0]))
        if short == "unique" and len(args) == 1 and seq(args[0]) and (sortable(list(args[0])) or not args[0]) and not (set(kwargs) - {"return_counts", "return_index", "return_inverse"}) and all(isinstance(v, bool) for v in kwargs.values()):
            xs = list(args[0])
            u = sorted(set(xs))
            res = [Vec(u)]
            if kwargs.get("return_index"):
                res.append(Vec(xs.index(x) for x in u))
            if kwargs.get("return_inverse"):
                res.append(Vec(u.index(x) for x in xs))
            if kwargs.get("return_counts"):
                res.append(Vec(xs.count(x) for x in u))
            return res[0] if len(res) == 1 else tuple(res)
        if short in ("logical_not",) and len(args) == 1 and isinstance(args[0], Vec) and all(isinstance(b, bool) for b in args[0]):
            return Vec(not b for b in args[0])
        if short in ("count_nonzero", "sum") and len(args) == 1 and isinstance(args[0], Vec) and all(isinstance(b, bool) for b in args[0]) and not kwargs:
            return sum(1 for b in args[0] if b)
        if short in ("any", "all") and len(args) == 1 and isinstance(args[0], Vec) and all(isinstance(b, bool) for b in args[0]) and not kwargs:
            return any(args[0]) if short == "any" else all(args[0])
        return NotImplemented

    def external_call(self, name: str, args: list, kwargs: dict, node):
        if name.startswith("numpy.") and args:
            r_ = self._vec_call(name, args, kwargs, node)
            if r_ is not NotImplemented:
                return r_
        if name in ("numpy.iinfo", "numpy.finfo") and args and isinstance(args[0], Sym):
            t = args[0].name.split(".")[-1].split(":")[-1]
            table = {"uint8": (8, 0, 2**8 - 1), "uint16": (16, 0, 2**16 - 1), "uint32": (32, 0, 2**32 - 1), "uint64": (64, 0, 2**64 - 1), "int8": (8, -(2**7), 2**7 - 1), "int16": (16, -(2**15), 2**15 - 1), "int32": (32, -(2**31), 2**31 - 1), "int64": (64, -(2**63), 2**63 - 1)}
            if t in table and name == "numpy.iinfo":
                import types

                b, lo, hi = table[t]
                return types.SimpleNamespace(bits=b, min=lo, max=hi, dtype=args[0])
        if name in ("dataclasses.fields", "dataclasses.replace", "dataclasses.asdict", "dataclasses.astuple") and args and isinstance(args[0], (Obj, Class)):
            k = args[0].cls if isinstance(args[0], Obj) else args[0]
            names = []
            for c in reversed(k.mro()):
                for st in c.node.body:
                    if isinstance(st, ast.AnnAssign) and isinstance(st.target, ast.Name) and st.target.id not in names and "ClassVar" not in ast.unparse(st.annotation):
                        names.append(st.target.id)
            if name == "dataclasses.fields" and len(args) == 1 and not kwargs:
                import types

                return tuple(types.SimpleNamespace(name=n) for n in names)
            if isinstance(args[0], Obj) and all(n in args[0].attrs for n in names):
                if name == "dataclasses.replace" and len(args) == 1 and all(k_ in names for k_ in kwargs):
                    new = Obj(args[0].cls, dict(args[0].attrs))
                    new.attrs.update(kwargs)
                    return new
                if name == "dataclasses.astuple" and len(args) == 1 and not kwargs:
                    return tuple(args[0].attrs[n] for n in names)
                if name == "dataclasses.asdict" and len(args) == 1 and not kwargs and not any(isinstance(args[0].attrs[n], (Obj, list, dict)) for n in names):
                    return {n: args[0].attrs[n] for n in names}
        if name == "itertools.count" and len(args) <= 2 and not (set(kwargs) - {"start", "step"}):
            start = kwargs.get("start", args[0] if args else 0)
            step = kwargs.get("step", args[1] if len(args) > 1 else 1)
            if isinstance(step, int) and not isinstance(step, bool):
                return CountIter(start, step)
        if name == "itertools.repeat" and 1 <= len(args) <= 2 and not kwargs:
            if len(args) == 2:
                if isinstance(args[1], int) and not isinstance(args[1], bool):
                    return [args[0]] * max(args[1], 0)
            else:
                return CountIter(args[0], None)
        if name in ("itertools.chain", "itertools.chain.from_iterable") and not kwargs:
            parts = list(args) if name == "itertools.chain" else (list(self.iterate(args[0], node)) if len(args) == 1 else None)
            if parts is not None:
                out = []
                for part in parts:
                    out += list(self.iterate(part, node))
                return out
        if name == "itertools.starmap" and len(args) == 2 and not kwargs:
            return [self.apply(args[0], list(self.iterate(t, node)), {}, node) for t in self.iterate(args[1], node)]
        if name == "functools.partial" and args:
            return PartialV(args[0], args[1:], kwargs)
        if name in ("operator.itemgetter", "operator.attrgetter") and len(args) == 1 and not kwargs and isinstance(args[0], (int, str)):
            return ItemGetter(name.rsplit(".", 1)[1], args[0])
        if name in ("bisect.bisect_left", "bisect.bisect_right", "bisect.bisect") and len(args) == 2 and not kwargs and isinstance(args[0], (list, tuple)) and all(isinstance(x, (int, float, Fraction)) and not isinstance(x, bool) for x in list(args[0]) + [args[1]]):
            import bisect

            return getattr(bisect, name.split(".")[1])(list(args[0]), args[1])
        if name == "numpy.dtype" and len(args) == 1 and isinstance(args[0], Sym):
            t = args[0].name.split(".")[-1].split(":")[-1]
            bits = {"uint8": 8, "uint16": 16, "uint32": 32, "uint64": 64, "int8": 8, "int16": 16, "int32": 32, "int64": 64, "float32": 32, "float64": 64, "bool_": 8}.get(t)
            if bits:
                import types

                return types.SimpleNamespace(itemsize=bits // 8, name=t, kind="u" if t.startswith("uint") else "i" if t.startswith("int") else "f" if t.startswith("float") else "b", type=args[0])
        # predicates on concrete numbers
        if name in ("numpy.isnan", "math.isnan", "numpy.isinf", "math.isinf", "numpy.isfinite", "math.isfinite") and len(args) == 1 and not kwargs and isinstance(args[0], (int, float, Fraction)) and not isinstance(args[0], bool):
            import math

            return getattr(math, name.rsplit(".", 1)[1])(float(args[0]))
        if name in ("numpy.isclose", "math.isclose") and len(args) == 2 and all(isinstance(a, (int, float, Fraction)) and not isinstance(a, bool) for a in args):
            import math

            a_, b_ = float(args[0]), float(args[1])
            if name.startswith("numpy"):
                rtol, atol = float(kwargs.get("rtol", 1e-5)), float(kwargs.get("atol", 1e-8))
                return abs(a_ - b_) <= atol + rtol * abs(b_)
            return math.isclose(a_, b_, rel_tol=float(kwargs.get("rel_tol", 1e-9)), abs_tol=float(kwargs.get("abs_tol", 0.0)))
        # pure scalar mathematics on concrete representatives
        mod, _, fn = name.rpartition(".")
        if mod in ("math", "numpy") and fn in _MATH_FUNCS and args and not kwargs and all(isinstance(a, (int, float, Fraction)) and not isinstance(a, bool) for a in args):
            import math

            try:
                r = getattr(math, fn)(*[float(a) if isinstance(a, Fraction) and fn not in ("gcd",) else a for a in args])
            except (ValueError, OverflowError, ZeroDivisionError):
                raise RaiseSignal("ValueError", node)
            return r
        return Unknown(f"{name}(...)")

    def binop_hook(self, op, l, r, node):
        return Unknown(f"binop {type(op).__name__}")

    def compare_hook(self, op, l, r, node):
        return Unknown(f"cmp {type(op).__name__}")

    def unary_hook(self, op, v, node):
        return Unknown(f"unary {type(op).__name__}")

    def isinstance_hook(self, v, klass, node):
        return Unknown("isinstance")

    def obj_membership_hook(self, obj, container, node) -> bool:
        return False

    def iterate_class(self, cls, node):
        raise Undecided(f"iteration over class {cls.name}")

    def should_inline(self, f: Func) -> bool:
        return True

    def on_statement(self, st: ast.stmt):
        pass

    # ------------------------------------------------------------------ running
    def _catches(self, htype, exc_name: str) -> bool:
        """`except <htype>` against an exception class name: names that are not exception classes themselves
        (a module-level tuple of classes) are evaluated; package classes follow their base classes."""
        if htype is None:
            return True
        elts = list(htype.elts) if isinstance(htype, ast.Tuple) else [htype]
        names = []
        for x in elts:
            d = (dotted(x) or "").split(".")[-1]
            if d in _EXC_PARENTS or d in _BUILTIN_EXC or d == "BaseException":
                names.append(d)
                continue
            try:
                v = self.eval(x)
            except (Undecided, RaiseSignal, KeyError):
                v = None
            for y in v if isinstance(v, (tuple, list)) else [v]:
                if isinstance(y, Sym):
                    names.append(y.name.split(":")[-1].split(".")[-1])
                elif isinstance(y, Class):
                    names.append(y.name)
                elif d:
                    names.append(d)
        chain, cur = [], exc_name.split(".")[-1]
        for _ in range(10):
            chain.append(cur)
            if cur == "BaseException":
                break
            nxt = _EXC_PARENTS.get(cur)
            if nxt is None:
                c = next((c for c in self.prog.classes.values() if c.name == cur), None) if hasattr(self.prog, "classes") else None
                b = [(dotted(b_) or "").split(".")[-1] for b_ in c.node.bases] if c is not None else []
                nxt = b[0] if b else "Exception"
            cur = nxt
        return any(n in chain for n in names)

    def run(self) -> Outcome:
        if self._defaults_pending:
            self._bind_defaults()
        try:
            self.exec_block(self.func.node.body)
        except _Return as r:
            return Outcome("return", r.value, r.node, list(self.root.taken), self.env)
        except RaiseSignal as r:
            return Outcome("raise", r.payload, r.node, list(self.root.taken), self.env, exc=r.exc_name)
        return Outcome("end", None, None, list(self.root.taken), self.env)

    def exec_block(self, stmts):
        for st in stmts:
            self.exec_stmt(st)

    def _tick(self):
        self.root.steps += 1
        if self.root.steps > self.max_steps:
            raise Undecided("step budget exceeded")

    def exec_stmt(self, st: ast.stmt):
        self._tick()
        self.on_statement(st)
        if isinstance(st, ast.Expr):
            if isinstance(st.value, ast.Constant):
                return
            self.eval(st.value)
        elif isinstance(st, ast.Assign):
            v = self.eval(st.value)
            for t in st.targets:
                self.assign(t, v)
        elif isinstance(st, ast.AnnAssign):
            if st.value is not None:
                self.assign(st.target, self.eval(st.value))
        elif isinstance(st, ast.AugAssign):
            cur = self.eval(_as_load(st.target))
            v = self.binop(st.op, cur, self.eval(st.value), st)
            self.assign(st.target, v)
        elif isinstance(st, ast.If):
            if self.truth(self.eval(st.test), st.test):
                self.exec_block(st.body)
            else:
                self.exec_block(st.orelse)
        elif isinstance(st, ast.Return):
            raise _Return(self.eval(st.value) if st.value is not None else None, st)
        elif isinstance(st, ast.Raise):
            name = "Exception"
            if st.exc is not None:
                e = st.exc.func if isinstance(st.exc, ast.Call) else st.exc
                name = dotted(e) or "Exception"
                if isinstance(e, ast.Name) and isinstance(self.env.get(e.id), Sym) and self.env[e.id].name.startswith("exc:"):
                    name = self.env[e.id].name[4:]  # raise <caught exception variable>
            elif getattr(self, "_handling", None):
                name = self._handling[-1]  # bare `raise` inside a handler: the exception being handled
            raise RaiseSignal(name.split(".")[-1], st)
        elif isinstance(st, ast.Assert):
            if not self.truth(self.eval(st.test), st.test):
                raise RaiseSignal("AssertionError", st)
        elif isinstance(st, ast.Pass):
            return
        elif isinstance(st, ast.For):
            it = self.eval(st.iter)
            it = self.iterate(it, st)
            for x in it:
                self.assign(st.target, x)
                try:
                    self.exec_block(st.body)
                except _Break:
                    break
                except _Continue:
                    continue
            else:
                self.exec_block(st.orelse)
        elif isinstance(st, ast.Break):
            raise _Break()
        elif isinstance(st, ast.Continue):
            raise _Continue()
        elif isinstance(st, ast.With):
            for it in st.items:
                v = self.eval(it.context_expr)
                if it.optional_vars is not None:
                    self.assign(it.optional_vars, v)
            self.exec_block(st.body)
        elif isinstance(st, (ast.Import, ast.ImportFrom)):
            for a in st.names:
                nm = a.asname or a.name.split(".")[0]
                base = getattr(st, "module", None)
                self.env[nm] = Sym("ext:" + (f"{base}.{a.name}" if base else a.name))
        elif isinstance(st, ast.Try):
            # finally runs on every exit of the statement: normal, return / break / continue, exception
            try:
                try:
                    self.exec_block(st.body)
                except RaiseSignal as r:
                    handled = False
                    for h in st.handlers:
                        if self._catches(h.type, r.exc_name):
                            if h.name:
                                self.env[h.name] = Sym("exc:" + r.exc_name)
                            if not hasattr(self, "_handling"):
                                self._handling = []
                            self._handling.append(r.exc_name)
                            try:
                                self.exec_block(h.body)
                            finally:
                                self._handling.pop()
                            handled = True
                            break
                    if not handled:
                        raise
                else:
                    self.exec_block(st.orelse)
            finally:
                if st.finalbody:
                    self.exec_block(st.finalbody)
        elif isinstance(st, ast.While):
            # bounded unrolling; a loop that does not end within the bound is not decided
            n_ = 0
            while self.truth(self.eval(st.test), st.test):
                n_ += 1
                if n_ > 64:
                    raise Undecided("while loop does not terminate within 64 iterations of the abstract run")
                try:
                    self.exec_block(st.body)
                except _Break:
                    break
                except _Continue:
                    continue
            else:
                self.exec_block(st.orelse)
        elif isinstance(st, ast.Match):
            subj = self.eval(st.subject)
            for case in st.cases:
                b = self._match(case.pattern, subj, st)
                if b is None:
                    continue
                saved_ = dict(self.env)
                self.env.update(b)
                if case.guard is not None and not self.truth(self.eval(case.guard), case.guard):
                    self.env = saved_
                    continue
                self.exec_block(case.body)
                break
        elif isinstance(st, ast.FunctionDef):
            plain = all(isinstance(d, ast.Call) and (dotted(d.func) or "").split(".")[-1] == "wraps" for d in st.decorator_list)  # functools.wraps: metadata only
            if not plain or any(isinstance(n, (ast.Nonlocal, ast.Global, ast.Yield, ast.YieldFrom)) for n in ast.walk(st)):
                raise Undecided("nested definition (decorated / nonlocal / generator)")
            a = st.args
            if a.posonlyargs:
                raise Undecided("nested definition with positional-only parameters")
            defaults = {}
            for arg, d in zip(a.args[len(a.args) - len(a.defaults) :], a.defaults):
                defaults[arg.arg] = self.eval(d)
            for arg, d in zip(a.kwonlyargs, a.kw_defaults):
                if d is not None:
                    defaults[arg.arg] = self.eval(d)
            self.env[st.name] = LocalDef(st, self.env, self, defaults)
        elif isinstance(st, ast.ClassDef):
            raise Undecided("nested definition")
        elif isinstance(st, ast.Delete):
            for t in st.targets:
                if isinstance(t, ast.Name):
                    self.env.pop(t.id, None)
                elif isinstance(t, ast.Subscript):
                    base = self.eval(t.value)
                    idx = self.eval_index(t.slice)
                    if isinstance(base, list) and isinstance(idx, (int, slice)):
                        try:
                            del base[idx]
                        except IndexError:
                            raise RaiseSignal("IndexError", st)
                    elif isinstance(base, dict):
                        k = _hashable(idx)
                        if k not in base:
                            raise RaiseSignal("KeyError", st)
                        del base[k]
                    else:
                        raise Undecided("del of an element of an abstract container")
                else:
                    raise Undecided("del target")
        elif isinstance(st, ast.Global):
            return
        else:
            raise Undecided(f"statement {type(st).__name__}")

    def _match(self, pat, v, node):
        """bindings if the pattern matches the (concrete enough) value, None if it does not"""
        if isinstance(pat, ast.MatchAs):
            if pat.pattern is None:
                return {pat.name: v} if pat.name else {}
            b = self._match(pat.pattern, v, node)
            if b is not None and pat.name:
                b[pat.name] = v
            return b
        if isinstance(pat, ast.MatchOr):
            for p_ in pat.patterns:
                b = self._match(p_, v, node)
                if b is not None:
                    return b
            return None
        if isinstance(pat, ast.MatchSingleton):
            if isinstance(v, Unknown):
                raise Undecided("match on an unmodelled value")
            return {} if v is pat.value else None
        if isinstance(pat, ast.MatchValue):
            r = self.compare(ast.Eq(), v, self.eval(pat.value), node)
            return {} if self.truth(r, node) else None
        if isinstance(pat, ast.MatchSequence) and isinstance(v, (list, tuple)) and not any(isinstance(p_, ast.MatchStar) for p_ in pat.patterns):
            if len(v) != len(pat.patterns):
                return None
            out = {}
            for p_, x in zip(pat.patterns, v):
                b = self._match(p_, x, node)
                if b is None:
                    return None
                out.update(b)
            return out
        if isinstance(pat, ast.MatchClass) and not pat.patterns and not pat.kwd_patterns:
            r = self.do_isinstance(v, self.eval(pat.cls), node)
            return {} if self.truth(r, node) else None
        raise Undecided(f"match pattern {type(pat).__name__}")

    def ev_NamedExpr(self, e):
        v = self.eval(e.value)
        self.assign(e.target, v)
        return v

    def iterate(self, it, node):
        if isinstance(it, GenV):
            return it.take()
        if isinstance(it, (list, tuple, set, frozenset)):
            return list(it)
        if isinstance(it, dict):
            return list(it.keys())
        if isinstance(it, range):
            return list(it)
        if isinstance(it, _DictView):
            return it.materialise()
        if isinstance(it, Class):
            return self.iterate_class(it, node)
        if isinstance(it, Obj) and isinstance(it.attrs.get("_fields"), tuple) and it.cls.lookup("__iter__") is None:
            return [it.attrs[n] for n in it.attrs["_fields"]]
        if isinstance(it, Obj):
            m = it.cls.lookup("__iter__")
            if m is not None:
                r = self.call_func(m, [], {}, node, self_obj=it)
                if isinstance(r, list):
                    return r
        raise Undecided(f"iteration over abstract value {it!r}")

    def assign(self, t: ast.expr, v):
        if isinstance(t, ast.Name):
            self.env[t.id] = v
        elif isinstance(t, (ast.Tuple, ast.List)):
            if isinstance(v, (tuple, list)) and len(v) == len(t.elts):
                for te, ve in zip(t.elts, v):
                    self.assign(te, ve)
            elif isinstance(v, (tuple, list)) and not any(isinstance(x, ast.Starred) for x in t.elts):
                raise RaiseSignal("ValueError", t, payload="unpack length mismatch")
            else:
                vs = self.unpack_hook(v, len(t.elts), t)
                for te, ve in zip(t.elts, vs):
                    self.assign(te, ve)
        elif isinstance(t, ast.Attribute):
            base = self.eval(t.value)
            if isinstance(base, Obj):
                name = t.attr
                if name.startswith("__") and not name.endswith("__") and self.func.cls is not None:
                    name = self.func.cls.mangle(name)
                base.attrs[name] = v
            else:
                self.store_attr_hook(base, t.attr, v, t)
        elif isinstance(t, ast.Subscript):
            base = self.eval(t.value)
            idx = self.eval_index(t.slice)
            if isinstance(base, dict):
                base[_hashable(idx)] = v
            elif isinstance(base, list) and isinstance(idx, int):
                base[idx] = v
            else:
                self.store_subscript_hook(base, idx, v, t)
        else:
            raise Undecided(f"assignment target {type(t).__name__}")

    def unpack_hook(self, v, n, node):
        return [Unknown(f"unpack[{i}]") for i in range(n)]

    def store_attr_hook(self, base, attr, v, node):
        pass

    def store_subscript_hook(self, base, idx, v, node):
        pass

    # ------------------------------------------------------------------ expressions
    def default_value(self, f: Func, p):
        """Default argument values are created once per function (shared between calls)."""
        cache = self.root.__dict__.setdefault("default_cache", {})
        key = (f.qual, p.name)
        if key not in cache:
            cache[key] = self.eval_in_module(f.module, p.default)
        return cache[key]

    def eval_in_module(self, m: Module, e: ast.expr):
        sub = self.__class__.__new__(self.__class__)
        sub.__dict__.update(self.__dict__)
        sub.module = m
        sub.env = {}
        return sub.eval(e)

    def eval_index(self, s):
        if isinstance(s, ast.Slice):
            return slice(
                self.eval(s.lower) if s.lower else None,
                self.eval(s.upper) if s.upper else None,
                self.eval(s.step) if s.step else None,
            )
        return self.eval(s)

    def eval(self, e: ast.expr):
        if self._defaults_pending:
            self._bind_defaults()
        self._tick()
        m = getattr(self, "ev_" + type(e).__name__, None)
        if m is None:
            raise Undecided(f"expression {type(e).__name__} in {self.func.qual}")
        return m(e)

    def ev_Constant(self, e):
        return e.value

    def ev_Name(self, e):
        if e.id in self.env:
            return self.env[e.id]
        if e.id in ("True", "False", "None"):
            return {"True": True, "False": False, "None": None}[e.id]
        return self.load_global(e.id, e)

    def ev_Attribute(self, e):
        base = self.eval(e.value)
        r = self.get_attr(base, e.attr, e)
        if isinstance(r, tuple) and len(r) == 2 and isinstance(r[0], Sym) and r[0].name.startswith("dictmethod:"):
            return _DictMethod(r[0].name[11:], r[1])
        return r

    def ev_Tuple(self, e):
        return tuple(self._elts(e.elts))

    def ev_List(self, e):
        return list(self._elts(e.elts))

    def ev_Set(self, e):
        return set(_hashable(x) for x in self._elts(e.elts))

    def _elts(self, elts):
        out = []
        for x in elts:
            if isinstance(x, ast.Starred):
                out += list(self.iterate(self.eval(x.value), x))
            else:
                out.append(self.eval(x))
        return out

    def ev_Dict(self, e):
        d = {}
        for k, v in zip(e.keys, e.values):
            if k is None:
                inner = self.eval(v)
                if isinstance(inner, _DictView):
                    inner = dict(inner.materialise())
                if not isinstance(inner, dict):
                    raise Undecided(f"** of a non-dict value {inner!r}"[:120])
                d.update(inner)
            else:
                d[_hashable(self.eval(k))] = self.eval(v)
        return d

    def ev_BoolOp(self, e):
        if isinstance(e.op, ast.And):
            v = True
            for x in e.values:
                v = self.eval(x)
                if not self.truth(v, x):
                    return v if is_concrete(v) else False
            return v if is_concrete(v) else True
        v = False
        for x in e.values:
            v = self.eval(x)
            if self.truth(v, x):
                return v if is_concrete(v) else True
        return v if is_concrete(v) else False

    def ev_UnaryOp(self, e):
        v = self.eval(e.operand)
        if isinstance(e.op, ast.Not):
            return not self.truth(v, e.operand)
        if isinstance(e.op, ast.Invert) and isinstance(v, Vec) and all(isinstance(b, bool) for b in v):
            return Vec(not b for b in v)
        if isinstance(v, (int, float, Fraction)) and not isinstance(v, bool) or isinstance(v, bool):
            if isinstance(e.op, ast.USub):
                return -v
            if isinstance(e.op, ast.UAdd):
                return +v
            if isinstance(e.op, ast.Invert) and isinstance(v, int):
                return ~v
        return self.unary_hook(e.op, v, e)

    def ev_BinOp(self, e):
        return self.binop(e.op, self.eval(e.left), self.eval(e.right), e)

    def binop(self, op, l, r, node):
        num = (int, float, Fraction, bool)
        if isinstance(l, num) and isinstance(r, num):
            try:
                if isinstance(op, ast.Div):
                    if isinstance(l, float) or isinstance(r, float):
                        return l / r
                    return Fraction(l) / Fraction(r)
                return _BINOPS[type(op)](l, r)
            except ZeroDivisionError:
                raise RaiseSignal("ZeroDivisionError", node)
        if isinstance(op, ast.Add) and type(l) is type(r) and isinstance(l, (str, list, tuple)):
            return l + r
        if isinstance(op, ast.Mult) and isinstance(l, (list, tuple, str)) and isinstance(r, int):
            return l * r
        if isinstance(op, ast.Mod) and isinstance(l, str):
            return Unknown("str%")
        return self.binop_hook(op, l, r, node)

    def ev_Compare(self, e):
        left = self.eval(e.left)
        result = True
        for op, rn in zip(e.ops, e.comparators):
            right = self.eval(rn)
            v = self.compare(op, left, right, e)
            if len(e.ops) == 1:
                return v
            if not self.truth(v, e):
                return False
            left = right
        return result

    def compare(self, op, l, r, node):
        if isinstance(op, (ast.Is, ast.IsNot)):
            if l is None or r is None or isinstance(l, (bool, Sym, Class, Func)) and isinstance(r, (bool, Sym, Class, Func, type(None))):
                if isinstance(l, Unknown) or isinstance(r, Unknown):
                    return self.compare_hook(op, l, r, node)
                same = (l is r) or (isinstance(l, (Sym, Class, Func, bool)) and type(l) is type(r) and l == r)
                return same if isinstance(op, ast.Is) else not same
            if isinstance(l, Unknown) or isinstance(r, Unknown):
                return self.compare_hook(op, l, r, node)
            same = l is r
            return same if isinstance(op, ast.Is) else not same
        if isinstance(op, (ast.In, ast.NotIn)):
            if isinstance(r, _DictView):
                r = r.materialise()
            if isinstance(l, (Class, Func)) and isinstance(r, (list, tuple, set)):
                res = any(x is l for x in r)
                return res if isinstance(op, ast.In) else not res
            if isinstance(l, Obj) and isinstance(r, (list, tuple, dict, set)):
                res = any(x is l for x in r)
                if not res:
                    res = self.obj_membership_hook(l, r, node)
                return res if isinstance(op, ast.In) else not res
            if isinstance(r, (list, tuple, set, frozenset, dict, str)) and is_concrete(l) and (isinstance(r, str) or is_concrete(list(r))):
                try:
                    res = _hashable(l) in ([_hashable(x) for x in r] if not isinstance(r, str) else r)
                except TypeError:
                    return self.compare_hook(op, l, r, node)
                return res if isinstance(op, ast.In) else not res
            return self.compare_hook(op, l, r, node)
        if (isinstance(l, Vec) or isinstance(r, Vec)) and type(op) in _CMPOPS:
            # numpy semantics: elementwise, a scalar is compared with every element
            ls = list(l) if isinstance(l, (Vec, list, tuple)) else None
            rs = list(r) if isinstance(r, (Vec, list, tuple)) else None
            if ls is not None and rs is not None and len(ls) != len(rs):
                if isinstance(op, (ast.Eq, ast.NotEq)):
                    return isinstance(op, ast.NotEq)  # (shapes that do not broadcast: numpy answers with a scalar / raises)
                raise RaiseSignal("ValueError", node)
            n_ = len(ls) if ls is not None else len(rs)
            out_ = Vec()
            for i_ in range(n_):
                out_.append(self.truth(self.compare(op, ls[i_] if ls is not None else l, rs[i_] if rs is not None else r, node), node))
            return out_
        num = (int, float, Fraction, bool)
        if isinstance(l, num) and isinstance(r, num):
            return _CMPOPS[type(op)](l, r)
        if isinstance(op, (ast.Eq, ast.NotEq)):
            if isinstance(l, (Unknown,)) or isinstance(r, (Unknown,)):
                return self.compare_hook(op, l, r, node)
            if is_concrete(l) and is_concrete(r):
                eq = l == r
                return eq if isinstance(op, ast.Eq) else not eq
        if isinstance(l, str) and isinstance(r, str):
            return _CMPOPS[type(op)](l, r)
        return self.compare_hook(op, l, r, node)

    def ev_IfExp(self, e):
        return self.eval(e.body) if self.truth(self.eval(e.test), e.test) else self.eval(e.orelse)

    def ev_Subscript(self, e):
        base = self.eval(e.value)
        idx = self.eval_index(e.slice)
        if isinstance(base, (tuple, list, str)) and isinstance(idx, (int, slice)) and not isinstance(idx, bool):
            try:
                r_ = base[idx]
                return Vec(r_) if isinstance(base, Vec) and isinstance(idx, slice) else r_
            except IndexError:
                raise RaiseSignal("IndexError", e)
        if isinstance(base, Vec) and isinstance(idx, list) and len(idx) == len(base) and all(isinstance(b, bool) for b in idx):
            return Vec(x for x, b in zip(base, idx) if b)  # boolean selection
        if isinstance(base, Vec) and isinstance(idx, (Vec, list)) and all(isinstance(i_, int) and not isinstance(i_, bool) for i_ in idx):
            try:
                return Vec(base[i_] for i_ in idx)  # selection by positions
            except IndexError:
                raise RaiseSignal("IndexError", e)
        if isinstance(base, dict):
            k = _hashable(idx)
            if k in base:
                return base[k]
            if is_concrete(idx):
                raise RaiseSignal("KeyError", e)
        if isinstance(base, Obj) and isinstance(base.attrs.get("_fields"), tuple) and isinstance(idx, int) and not isinstance(idx, bool):
            try:
                return base.attrs[base.attrs["_fields"][idx]]
            except IndexError:
                raise RaiseSignal("IndexError", e)
        if isinstance(base, Obj) and isinstance(base.attrs.get("_fields"), tuple) and isinstance(idx, slice) and base.cls.lookup("__getitem__") is None:
            return tuple(base.attrs[n] for n in base.attrs["_fields"][idx])  # a slice of a named tuple is a plain tuple
        if isinstance(base, Obj):
            gi = base.cls.lookup("__getitem__")
            if gi is not None:
                return self.call_func(gi, [idx], {}, e, self_obj=base)
        if isinstance(base, Class) and base.lookup("__getitem__") is None:
            # Enum lookup by name: Cls[name]
            if isinstance(idx, str):
                return self.class_member(base, idx, e)
        return self.subscript_hook(base, idx, e)

    def subscript_hook(self, base, idx, node):
        return Unknown("subscript")

    def ev_Lambda(self, e):
        return Closure(e, dict(self.env), self)

    def ev_JoinedStr(self, e):
        parts = []
        for v in e.values:
            if isinstance(v, ast.Constant):
                parts.append(str(v.value))
            else:
                x = self.eval(v.value)
                plain = v.conversion in (-1, 115) and v.format_spec is None  # no !r / format spec
                if isinstance(x, (str, int)) and not isinstance(x, bool):
                    parts.append(str(x))
                elif plain and isinstance(x, (list, tuple, dict, set, bool, float, type(None))) and is_concrete(x) and not _has_sym(x):
                    parts.append(str(x))  # containers of concrete values print as Python prints them
                else:
                    return Sym("fstring:" + norm(e))
        return "".join(parts)

    def ev_ListComp(self, e):
        r = self._comp(e, lambda sub: sub.eval(e.elt))
        return r

    def ev_GeneratorExp(self, e):
        r = self._comp(e, lambda sub: sub.eval(e.elt))
        # a generator can be walked once: whoever consumes it second finds it empty (GenV keeps the items and
        # whether they were handed out)
        return GenV(r) if type(r) is list else r

    def ev_SetComp(self, e):
        r = self._comp(e, lambda sub: sub.eval(e.elt))
        return r if isinstance(r, Unknown) else set(_hashable(x) for x in r)

    def ev_DictComp(self, e):
        pairs = self._comp(e, lambda sub: (sub.eval(e.key), sub.eval(e.value)))
        return pairs if isinstance(pairs, Unknown) else {_hashable(k): v for k, v in pairs}

    def _comp(self, e, make):
        out = []
        saved = dict(self.env)
        # a value built by iterating something unknown is unknown (no statement is executed per element)
        first = self.eval(e.generators[0].iter)
        if isinstance(first, Unknown) and not any(isinstance(n, (ast.Call, ast.NamedExpr)) for g in e.generators for c in g.ifs for n in ast.walk(c)):
            return Unknown(f"comprehension over {first.tag}")

        def rec(i):
            if i == len(e.generators):
                out.append(make(self))
                return
            g = e.generators[i]
            for x in self.iterate(first if i == 0 else self.eval(g.iter), g):
                self.assign(g.target, x)
                if all(self.truth(self.eval(c), c) for c in g.ifs):
                    rec(i + 1)

        try:
            rec(0)
        finally:
            # comprehension variables do not leak
            for k in list(self.env):
                if k not in saved:
                    del self.env[k]
            self.env.update(saved)
        return out

    def ev_Starred(self, e):
        raise Undecided("starred expression")

    # ------------------------------------------------------------------ calls
    def ev_Call(self, e: ast.Call):
        # isinstance is handled before evaluating the class argument generically
        if isinstance(e.func, ast.Name) and e.func.id == "isinstance" and "isinstance" not in self.env and len(e.args) == 2:
            v = self.eval(e.args[0])
            k = self.eval(e.args[1])
            return self.do_isinstance(v, k, e)
        fv = self.eval(e.func)
        args = []
        for a in e.args:
            if isinstance(a, ast.Starred):
                args += list(self.iterate(self.eval(a.value), a))
            else:
                args.append(self.eval(a))
        kwargs = {}
        for kw in e.keywords:
            if kw.arg is None:
                d = self.eval(kw.value)
                if isinstance(d, dict):
                    kwargs.update(d)
                else:
                    raise Undecided("**kwargs of abstract value")
            else:
                kwargs[kw.arg] = self.eval(kw.value)
        return self.apply(fv, args, kwargs, e)

    def do_isinstance(self, v, k, node):
        ks = k if isinstance(k, tuple) else (k,)
        res = False
        for kk in ks:
            if res is True:
                return True  # one alternative of the tuple already matches
            if isinstance(kk, Class):
                if isinstance(v, Obj):
                    res = res or v.cls.is_subclass_of(kk)
                elif isinstance(v, EnumSym):
                    res = res or v.cls.is_subclass_of(kk)
                elif isinstance(v, (Unknown,)):
                    return self.isinstance_hook(v, k, node)
                elif is_concrete(v) and not isinstance(v, Sym):
                    res = res or False
                else:
                    return self.isinstance_hook(v, k, node)
            elif isinstance(kk, Sym) and kk.name.startswith("builtin:"):
                ty = {"int": int, "str": str, "float": float, "bool": bool, "list": list, "tuple": tuple, "dict": dict, "set": set}.get(kk.name[8:])
                if ty is None:
                    return self.isinstance_hook(v, k, node)
                if isinstance(v, (EnumSym, Obj)) and not any((dotted(b) or "").split(".")[-1] in ("str", "int", "float", "IntEnum", "StrEnum", "IntFlag") for c_ in v.cls.mro() for b in c_.node.bases):
                    continue  # an object of a package class (enum member, config object) is no str/int/list ...
                if isinstance(v, (Unknown, Sym, Obj)) or not isinstance(v, CONCRETE):
                    r = self.isinstance_hook(v, k, node)
                    if isinstance(r, bool):
                        res = res or r
                        continue
                    return r
                if ty is int and isinstance(v, Fraction) and v.denominator == 1:
                    res = True
                else:
                    res = res or isinstance(v, ty)
            elif isinstance(kk, Sym) and isinstance(v, CONCRETE + (list, tuple, dict, set, frozenset)) and not isinstance(v, Sym) and kk.name.split(".")[-1] in _ABSTRACT_TYPES:
                # a plain Python value against a numpy / collections.abc class
                res = res or _ABSTRACT_TYPES[kk.name.split(".")[-1]](v)
            else:
                return self.isinstance_hook(v, k, node)
        return res

    def apply(self, fv, args, kwargs, node):
        if isinstance(fv, _PyMethod):
            if kwargs and fv.name != "sort":
                raise Undecided("keyword arguments to container method")
            a = [(_hashable(x) if isinstance(fv.obj, (dict, set)) and fv.name in ("setdefault", "pop", "add", "discard", "remove") and i == 0 else x) for i, x in enumerate(args)]
            if isinstance(fv.obj, list) and fv.name == "extend" and a and isinstance(a[0], _DictView):
                a = [a[0].materialise()]
            if fv.name in ("index", "remove", "count") and isinstance(fv.obj, (list, tuple)):
                # identity/equality on abstract values: only symbols and concrete values are comparable
                if not all(is_concrete(x) for x in list(fv.obj) + a):
                    raise Undecided("search in a list of abstract values")
            if fv.name == "sort" and isinstance(fv.obj, list):
                if set(kwargs) - {"reverse"} or args:
                    raise Undecided("list.sort with a key")
                fv.obj.sort(reverse=bool(kwargs.get("reverse", False)))
                return None
            if isinstance(fv.obj, (set, frozenset)) and fv.name in ("isdisjoint", "issubset", "issuperset", "union", "intersection", "difference", "symmetric_difference"):
                other = []
                for x in a:
                    if isinstance(x, _DictView):
                        x = x.materialise()
                    if not isinstance(x, (list, tuple, set, frozenset, dict)):
                        x = self.iterate(x, node)
                    if not all(is_concrete(y) for y in x) or not all(is_concrete(y) for y in fv.obj):
                        raise Undecided(f"set.{fv.name} on abstract elements")
                    other.append([_hashable(y) for y in x])
                return getattr(fv.obj, fv.name)(*other)
            if fv.name in ("update", "extend", "union", "intersection", "difference", "join") and any(isinstance(x, Unknown) for x in a):
                raise Undecided(f"container method {fv.name} with an unmodelled argument")
            if isinstance(fv.obj, dict) and fv.name == "update" and len(a) == 1 and isinstance(a[0], list):
                a = [[(_hashable(k), v) for k, v in a[0]]]
            try:
                return getattr(fv.obj, fv.name)(*a)
            except (ValueError, KeyError, IndexError) as e:
                raise RaiseSignal(type(e).__name__, node)
        if isinstance(fv, _DictMethod):
            d = fv.d
            if fv.name == "keys":
                return _DictView(d, "keys")
            if fv.name == "values":
                return _DictView(d, "values")
            if fv.name == "items":
                return _DictView(d, "items")
            if fv.name == "get":
                k = _hashable(args[0])
                return d.get(k, args[1] if len(args) > 1 else None)
        if isinstance(fv, _VecM):
            v_, n_ = fv.v, fv.name
            bools = all(isinstance(b, bool) for b in v_)
            if n_ == "tolist" and not args:
                return list(v_)
            if n_ in ("copy", "astype"):
                return Vec(v_)
            if n_ == "all" and bools and not args:
                return all(v_)
            if n_ == "any" and bools and not args:
                return any(v_)
            if n_ == "sum" and not args and all(isinstance(b, (bool, int)) for b in v_):
                return sum(int(b) for b in v_)
            if n_ in ("max", "min") and not args and v_ and all(isinstance(b, (int, float, Fraction, str)) and not isinstance(b, bool) for b in v_):
                return (max if n_ == "max" else min)(v_)
            if n_ == "item" and len(v_) == 1 and not args:
                return v_[0]
            return Unknown(f"vector.{n_}")
        if isinstance(fv, RawFunc):
            f_ = fv.func
            self.root.__dict__["_raw_once"] = f_.qual  # (subclasses override call_func: the flag travels beside it)
            try:
                if f_.cls is not None and not f_.is_staticmethod and args:
                    return self.call_func(f_, list(args[1:]), kwargs, node, self_obj=args[0])
                return self.call_func(f_, args, kwargs, node)
            finally:
                self.root.__dict__.pop("_raw_once", None)
        if isinstance(fv, Func):
            return self.call_func(fv, args, kwargs, node)
        if isinstance(fv, BoundMethod):
            return self.call_func(fv.func, args, kwargs, node, self_obj=fv.self_obj)
        if isinstance(fv, Class):
            return self.construct(fv, args, kwargs, node)
        if isinstance(fv, Closure):
            return self.call_closure(fv, args, node)
        if isinstance(fv, LocalDef):
            return self.call_localdef(fv, args, kwargs, node)
        if isinstance(fv, PartialV):
            return self.apply(fv.f, fv.args + list(args), {**fv.kwargs, **kwargs}, node)
        if isinstance(fv, ItemGetter) and len(args) == 1 and not kwargs:
            if fv.kind == "attrgetter":
                return self.get_attr(args[0], fv.key, node)
            if isinstance(args[0], (list, tuple, dict)):
                try:
                    return args[0][fv.key]
                except (IndexError, KeyError):
                    raise RaiseSignal("IndexError", node)
            return self.subscript_hook(args[0], fv.key, node)
        if isinstance(fv, Obj):
            m = fv.cls.lookup("__call__")
            if m is not None:
                return self.call_func(m, args, kwargs, node, self_obj=fv)
        if isinstance(fv, EnumSym) and not args and not kwargs:
            # an enum member called without arguments: its class's own __call__ (value tables)
            m = fv.cls.lookup("__call__")
            if m is not None and len(m.call_params) == 0:
                return self.call_func(m, [], {}, node, self_obj=fv)
        if isinstance(fv, Sym):
            if fv.name.startswith("super."):
                return None  # method of an external base class (object.__init__ ...)
            if fv.name.startswith("builtin:"):
                if any(isinstance(a, GenV) for a in args) and fv.name[8:] in _CONSUMERS:
                    args = [a.take() if isinstance(a, GenV) else a for a in args]
                return self.call_builtin(fv.name[8:], args, kwargs, node)
            nm = fv.name[4:] if fv.name.startswith("ext:") else fv.name
            if nm.endswith(".isEnabledFor"):
                return True  # diagnostics are analysed switched on: whatever the guarded block does is seen
            # worker pools of concurrent.futures are read like multiprocessing pools: Executor.map(fn, it1, it2, ...)
            # is starmap(fn, zip(it1, it2, ...)), results in input order
            if nm == "itertools.repeat" and len(args) == 1 and not kwargs:
                return RepeatV(args[0])
            if nm == "itertools.repeat" and len(args) == 2 and not kwargs and isinstance(args[1], int) and not isinstance(args[1], bool):
                return [args[0]] * args[1]
            if nm.split(".")[-1] in ("ProcessPoolExecutor", "ThreadPoolExecutor"):
                nm = "multiprocessing.Pool"
            elif nm == "pool.map" and len(args) >= 2 and not (set(kwargs) - {"chunksize", "timeout"}) and all(isinstance(a, (list, tuple, RepeatV)) for a in args[1:]) and any(isinstance(a, (list, tuple)) for a in args[1:]):
                # endless repeat(x) operands are as long as the shortest finite one
                n_ = min(len(a) for a in args[1:] if isinstance(a, (list, tuple)))
                its = [[a.value] * n_ if isinstance(a, RepeatV) else a for a in args[1:]]
                if len(its) == 1:
                    nm, args = "pool.starmap", [args[0], [(x,) for x in its[0]]]
                elif len({len(i) for i in its}) == 1:
                    nm, args = "pool.starmap", [args[0], [tuple(t) for t in zip(*its)]]
                kwargs = {}
            return self.external_call(nm, args, kwargs, node)
        if isinstance(fv, Unknown):
            if str(fv.tag).endswith(".isEnabledFor") or str(fv.tag).endswith(".isEnabledFor)"):
                return True
            return self.external_call(fv.tag, args, kwargs, node)
        raise Undecided(f"call of {fv!r}")

    def call_closure(self, c: Closure, args, node):
        a = c.node.args
        names = [x.arg for x in a.args]
        if len(names) != len(args):
            raise Undecided("lambda arity")
        sub = self.__class__.__new__(self.__class__)
        sub.__dict__.update(c.interp.__dict__)
        sub.env = dict(c.env)
        sub.env.update(dict(zip(names, args)))
        return sub.eval(c.node.body)

    def call_localdef(self, ld: LocalDef, args, kwargs, node):
        a = ld.node.args
        names = [x.arg for x in a.args]
        kwonly = [x.arg for x in a.kwonlyargs]
        if len(args) > len(names) and a.vararg is None:
            raise RaiseSignal("TypeError", node)
        bound = dict(zip(names, args))
        if a.vararg is not None:
            bound[a.vararg.arg] = tuple(args[len(names) :])
        rest = {}
        for k, v in kwargs.items():
            if k not in names + kwonly or k in bound:
                if a.kwarg is None:
                    raise RaiseSignal("TypeError", node)
                rest[k] = v
                continue
            bound[k] = v
        if a.kwarg is not None:
            bound[a.kwarg.arg] = rest
        for n in names + kwonly:
            if n not in bound:
                if n in ld.defaults:
                    bound[n] = ld.defaults[n]
                else:
                    raise RaiseSignal("TypeError", node)
        if self.depth >= self.max_depth:
            raise Undecided("call depth")
        sub = self.__class__.__new__(self.__class__)
        sub.__dict__.update(ld.interp.__dict__)
        sub.env = dict(ld.env)  # snapshot at call time == late binding without nonlocal writes
        sub.env.update(bound)
        sub.depth = self.depth + 1
        sub.root = self.root
        try:
            sub.exec_block(ld.node.body)
        except _Return as r:
            return r.value
        return None

    def construct(self, cls: Class, args, kwargs, node):
        init = cls.lookup("__init__")
        if init is not None and not self.should_inline(init):
            return self.external_call(cls.qual, args, kwargs, node)
        o = Obj(cls, {})
        if init is not None:
            self.call_func(init, args, kwargs, node, self_obj=o)
        elif any((dotted(b) or "").split(".")[-1] == "NamedTuple" for b in cls.node.bases):
            # typing.NamedTuple: fields in declaration order, defaults from the class body
            decl = [st for st in cls.node.body if isinstance(st, ast.AnnAssign) and isinstance(st.target, ast.Name)]
            fields = [st.target.id for st in decl]
            if len(args) > len(fields) or any(k not in fields for k in kwargs):
                raise RaiseSignal("TypeError", node)
            for n, v in zip(fields, args):
                o.attrs[n] = v
            for k, v in kwargs.items():
                if k in o.attrs:
                    raise RaiseSignal("TypeError", node)
                o.attrs[k] = v
            for st in decl:
                if st.target.id not in o.attrs:
                    if st.value is None:
                        raise RaiseSignal("TypeError", node)
                    o.attrs[st.target.id] = self.eval_in_module(cls.module, st.value)
            o.attrs["_fields"] = tuple(fields)
        elif any(d == "dataclass" or d.startswith("dataclass") for d in [dotted(x) or (dotted(x.func) if isinstance(x, ast.Call) else "") or "" for x in cls.node.decorator_list]):
            fields = [st.target.id for st in cls.node.body if isinstance(st, ast.AnnAssign) and isinstance(st.target, ast.Name)]
            for n, v in zip(fields, args):
                o.attrs[n] = v
            for k, v in kwargs.items():
                o.attrs[k] = v
        return o

    def _decorator_plan(self, f: Func) -> list:
        """The decorators of `f` that have to be run to know what a call of `f` does: those defined in the
        package whose wrapper does anything but pass its own *args / **kwargs on and hand the result back."""
        cache = self.prog.__dict__.setdefault("_decorator_plans", {})
        if f.qual in cache:
            return cache[f.qual]
        plan = []
        for d in f.node.decorator_list:
            target = d.func if isinstance(d, ast.Call) else d
            nm = (dotted(target) or "").split(".")[-1]
            if nm in ("property", "classmethod", "staticmethod", "abstractmethod", "cached_property", "dataclass", "overload", "wraps", "lru_cache", "cache", "setter", "getter", "deleter", "total_ordering"):
                continue
            try:
                r = self.prog.resolve_dotted(f.module, target)
            except Exception:
                r = None
            if not isinstance(r, Func):
                continue  # not from the package
            if _transparent_decorator(r):
                continue
            plan.append(d)
        cache[f.qual] = plan
        return plan

    def _call_decorated(self, f: Func, plan, args, kwargs, node, self_obj):
        store = self.root.__dict__.setdefault("_decorated", {})
        val = store.get(f.qual)
        if val is None:
            val = RawFunc(f)
            for d in reversed(plan):
                dv = self.eval_in_module(f.module, d)
                val = self.apply(dv, [val], {}, node)
            store[f.qual] = val
        if isinstance(val, RawFunc):
            return self.apply(val, ([self_obj] if (f.cls is not None and not f.is_staticmethod) else []) + list(args), kwargs, node)
        lead = [self_obj] if (f.cls is not None and not f.is_staticmethod and self_obj is not None) else []
        return self.apply(val, lead + list(args), kwargs, node)

    def call_func(self, f: Func, args, kwargs, node, self_obj=None):
        _raw = self.root.__dict__.get("_raw_once") == f.qual
        if _raw:
            self.root.__dict__.pop("_raw_once", None)
        if not _raw and f.node.decorator_list:
            plan = self._decorator_plan(f)
            if plan:
                return self._call_decorated(f, plan, args, kwargs, node, self_obj)
        # the label enumerator asked for the sizes as well (`return_counts=True`, verified by R09.6 to hand back the
        # same labels plus one count per label): the labels as every domain models them, and a size per label
        if self_obj is None and f.name == "_unique_without_zeros" and len(f.call_params) == 2 and "count" in f.call_params[1].name.lower():
            flag = kwargs.get(f.call_params[1].name, args[1] if len(args) > 1 else False)
            if flag is True and args:
                labels = self.call_func(f, [args[0]], {}, node)
                if isinstance(labels, (list, tuple)):
                    return (labels, type(labels)(Sym(f"size_of[{i}]") for i in range(len(labels))))
                return (labels, Unknown("sizes of the labels"))
        ve = self.prog.__dict__.get("_verified_enum")
        if ve is None and self_obj is None and len(args) + len(kwargs) == 1:
            self.prog.__dict__["_verified_enum"] = {}
            try:
                from .rules.labelenum import verified_enumerators

                self.prog.__dict__["_verified_enum"] = verified_enumerators(self.prog)
            except Exception:
                pass
            ve = self.prog.__dict__["_verified_enum"]
        if ve and f.qual in ve and self_obj is None and type(self).__name__ != "EnumInterp":
            anchor = self.prog.func("utils.numpy_utils:_unique_without_zeros" if ve[f.qual] == "set" else "utils.numpy_utils:_count_unique_without_zeros")
            return self.call_func(anchor, list(args) + list(kwargs.values()), {}, node)
        if self.depth >= self.max_depth or not self.should_inline(f):
            self.root.last_receiver = self_obj
            return self.external_call(f.qual, args, kwargs, node)
        params = f.params
        env = {}
        pos = [p for p in params if p.kind == "pos"]
        if f.cls is not None and not f.is_staticmethod and pos:
            sname = pos[0].name
            pos = pos[1:]
            if f.is_classmethod:
                env[sname] = self_obj if isinstance(self_obj, Class) else f.cls
            else:
                env[sname] = self_obj
        extra = []
        for i, a in enumerate(args):
            if i < len(pos):
                env[pos[i].name] = a
            else:
                extra.append(a)
        va = [p for p in params if p.kind == "vararg"]
        if va:
            env[va[0].name] = tuple(extra)
        elif extra:
            raise RaiseSignal("TypeError", node)
        kwrest = {}
        names = {p.name for p in params if p.kind in ("pos", "kwonly")}
        for k, v in kwargs.items():
            if k in names:
                env[k] = v
            else:
                kwrest[k] = v
        ka = [p for p in params if p.kind == "kwarg"]
        if ka:
            env[ka[0].name] = kwrest
        elif kwrest:
            raise RaiseSignal("TypeError", node)
        for p in params:
            if p.kind in ("pos", "kwonly") and p.name not in env:
                if p.default is not None:
                    env[p.name] = self.default_value(f, p)
                else:
                    raise RaiseSignal("TypeError", node)
        sub = self.__class__.__new__(self.__class__)
        sub.__dict__.update(self.__dict__)
        sub.func = f
        sub.module = f.module
        sub.env = env
        sub.depth = self.depth + 1
        sub.root = self.root
        is_gen = any(isinstance(n, (ast.Yield, ast.YieldFrom)) for n in _walk_no_nested(f.node))
        if is_gen:
            sub.yields = []
            try:
                sub.exec_block(f.node.body)
            except _Return:
                pass
            return list(sub.yields)
        try:
            sub.exec_block(f.node.body)
        except _Return as r:
            return r.value
        return None

    def ev_Yield(self, e):
        if not hasattr(self, "yields"):
            raise Undecided("yield outside a modelled generator")
        self.yields.append(self.eval(e.value) if e.value is not None else None)
        return None

    def ev_YieldFrom(self, e):
        if not hasattr(self, "yields"):
            raise Undecided("yield from outside a modelled generator")
        for x in self.iterate(self.eval(e.value), e):
            self.yields.append(x)
        return None

    def call_builtin(self, name, args, kwargs, node):
        if any(isinstance(a, GenV) for a in args) and name in _CONSUMERS:
            args = [a.take() if isinstance(a, GenV) else a for a in args]
        conc = all(is_concrete(a) and not _has_sym(a) for a in args)
        try:
            if name in ("str", "repr") and len(args) == 1 and not kwargs and isinstance(args[0], (EnumSym, Obj)):
                # the class's own __str__/__repr__ (repr falls back to... nothing: object.__repr__ is an address)
                a = args[0]
                m = a.cls.lookup("__str__" if name == "str" else "__repr__") or (a.cls.lookup("__repr__") if name == "str" else None)
                if m is not None:
                    return self.call_func(m, [], {}, node, self_obj=a)
                if isinstance(a, EnumSym):
                    return f"{a.cls.name}.{a.member}" if name == "str" else Sym(f"repr:{a.cls.name}.{a.member}")
            if name == "slice" and 1 <= len(args) <= 3 and not kwargs and all(a is None or (isinstance(a, int) and not isinstance(a, bool)) for a in args):
                return slice(*args)
            if name == "len":
                a = args[0]
                if isinstance(a, _DictView):
                    a = a.materialise()
                if isinstance(a, (list, tuple, dict, set, str, frozenset, bytes)):
                    return len(a)
                return self.external_call("len", args, kwargs, node)
            if name == "frozenset" and not args and not kwargs:
                return frozenset()
            if name in ("list", "tuple", "set", "frozenset", "sorted", "reversed"):
                a = args[0] if args else []
                if isinstance(a, _DictView):
                    a = a.materialise()
                if not isinstance(a, (list, tuple, set, frozenset, dict, range, str, Unknown, Sym)) and len(args) == 1:
                    # any other iterable abstract value (object with __iter__, reader, ...)
                    try:
                        a = list(self.iterate(a, node))
                    except Undecided:
                        pass
                if isinstance(a, (list, tuple, set, frozenset, dict, range)):
                    items = list(a)
                    if name == "list" or name == "reversed":
                        return items if name == "list" else list(reversed(items))
                    if name == "tuple":
                        return tuple(items)
                    if name == "set":
                        return set(_hashable(x) for x in items)
                    if name == "frozenset":
                        return frozenset(_hashable(x) for x in items)
                    if name == "sorted":
                        key = kwargs.get("key")
                        rev = kwargs.get("reverse", False)
                        if key is None and (conc or all(is_concrete(x) and not _has_sym(x) for x in items)) and isinstance(rev, (bool, int)):
                            return sorted(items, reverse=bool(rev))
                        return self.external_call("sorted", args, kwargs, node)
                return self.external_call(name, args, kwargs, node)
            if name == "dict":
                if not args:
                    return dict(kwargs)
                if isinstance(args[0], dict):
                    return dict(args[0])
            if name == "range" and conc:
                return list(range(*args))
            if name == "range" and len(args) == 2 and not kwargs:
                # symbolic bounds whose difference is a known number: start, start+1, ...
                try:
                    n = self.binop(ast.Sub(), args[1], args[0], node)
                except Undecided:
                    n = None
                n = getattr(n, "const_value", lambda: n)() if n is not None and not isinstance(n, (int, Fraction)) else n
                if isinstance(n, Fraction) and n.denominator == 1:
                    n = int(n)
                if isinstance(n, int) and not isinstance(n, bool) and 0 <= n <= 64:
                    out, cur = [], args[0]
                    for _ in range(n):
                        out.append(cur)
                        cur = self.binop(ast.Add(), cur, 1, node)
                    return out
            if name == "enumerate" and isinstance(args[0], (list, tuple)):
                st = kwargs.get("start", args[1] if len(args) > 1 else 0)
                if isinstance(st, int):
                    return [(i + st, x) for i, x in enumerate(args[0])]
                out, cur = [], st
                for x in args[0]:
                    out.append((cur, x))
                    cur = self.binop(ast.Add(), cur, 1, node)
                return out
            if name == "zip" and all(isinstance(a, (list, tuple)) for a in args):
                return list(zip(*args))
            if name == "zip" and args and all(isinstance(a, (list, tuple, CountIter)) for a in args) and any(isinstance(a, (list, tuple)) for a in args):
                n = min(len(a) for a in args if isinstance(a, (list, tuple)))
                cols = []
                for a in args:
                    if isinstance(a, CountIter):
                        col, cur = [], a.start
                        for i in range(n):
                            col.append(cur)
                            if a.step is not None:
                                cur = self.binop(ast.Add(), cur, a.step, node)
                        a.start = cur  # consumed
                        cols.append(col)
                    else:
                        cols.append(list(a)[:n])
                return list(zip(*cols))
            if name in ("int", "float", "bool", "abs", "str", "round") and conc and args:
                a = args[0]
                if name == "int":
                    return int(a)
                if name == "float":
                    return a if isinstance(a, Fraction) else (Fraction(a) if isinstance(a, int) else float(a))
                if name == "bool":
                    return bool(a)
                if name == "abs":
                    return abs(a)
                if name == "str":
                    return str(a)
            if name in ("max", "min") and args:
                items = list(args[0]) if len(args) == 1 and isinstance(args[0], (list, tuple, set)) else list(args)
                if all(isinstance(x, (int, float, Fraction)) for x in items) and items:
                    return (max if name == "max" else min)(items)
                if not items and len(args) == 1 and isinstance(args[0], (list, tuple, set)):
                    if "default" in kwargs:
                        return kwargs["default"]  # nothing to compare: the default
                    raise RaiseSignal("ValueError", node, payload=f"{name}() arg is an empty sequence")
            if name in ("any", "all") and isinstance(args[0], (list, tuple)):
                vals = [self.truth(x, node) for x in args[0]]
                return any(vals) if name == "any" else all(vals)
            if name == "sum" and isinstance(args[0], (list, tuple)) and all(isinstance(x, (int, float, Fraction)) for x in args[0]):
                return sum(args[0])
            if name == "print":
                return None
            if name == "super" and not args and self.func.cls is not None and self.func.self_name in self.env:
                return SuperProxy(self.env[self.func.self_name], self.func.cls)
            if name == "setattr" and len(args) == 3 and isinstance(args[0], Obj):
                if isinstance(args[1], str):
                    args[0].attrs[args[1]] = args[2]
                return None
            if name in ("dict.items", "dict.keys", "dict.values") and len(args) == 1 and isinstance(args[0], dict) and not kwargs:
                return _DictView(args[0], name.split(".")[1])
            if name == "next" and 1 <= len(args) <= 2 and not kwargs and isinstance(args[0], CountIter):
                it = args[0]
                cur = it.start
                if it.step is not None:
                    it.start = self.binop(ast.Add(), cur, it.step, node)  # the iterator advances
                return cur
            if name == "next" and 1 <= len(args) <= 2 and not kwargs and isinstance(args[0], list):
                # the argument is a generator expression / iter(...) evaluated eagerly: first element
                if args[0]:
                    return args[0][0]
                if len(args) == 2:
                    return args[1]
                raise RaiseSignal("StopIteration", node)
            if name == "iter" and len(args) == 1 and not kwargs:
                return list(self.iterate(args[0], node))
            if name == "map" and len(args) >= 2 and not kwargs:
                cols = [list(self.iterate(a, node)) for a in args[1:]]
                return [self.apply(args[0], list(t), {}, node) for t in zip(*cols)]
            if name == "filter" and len(args) == 2 and not kwargs:
                items = list(self.iterate(args[1], node))
                if args[0] is None:
                    return [x for x in items if self.truth(x, node)]
                return [x for x in items if self.truth(self.apply(args[0], [x], {}, node), node)]
            if name == "dict.fromkeys" and 1 <= len(args) <= 2 and not kwargs:
                keys = args[0]
                if not isinstance(keys, (list, tuple, dict, set, frozenset, str)):
                    keys = self.iterate(keys, node)
                return {_hashable(k): (args[1] if len(args) > 1 else None) for k in keys}
            if name == "object" and not args and not kwargs:
                return Sentinel()
            if name == "getattr" and len(args) >= 2 and isinstance(args[0], Obj) and isinstance(args[1], str):
                if args[1] in args[0].attrs or args[0].cls.lookup(args[1]) is not None:
                    return self.get_attr(args[0], args[1], node)
                if len(args) == 3:
                    return args[2]
            if name == "getattr" and len(args) >= 2 and isinstance(args[0], Class) and isinstance(args[1], str):
                # class attribute through the MRO (plain or annotated assignment), methods, else the default
                for k_ in args[0].mro():
                    if args[1] in k_.class_assigns():
                        return self.eval_in_module(k_.module, k_.class_assigns()[args[1]])
                    for st in k_.node.body:
                        if isinstance(st, ast.AnnAssign) and isinstance(st.target, ast.Name) and st.target.id == args[1] and st.value is not None:
                            return self.eval_in_module(k_.module, st.value)
                if args[0].lookup(args[1]) is not None:
                    return self.get_attr(args[0], args[1], node)
                if len(args) == 3:
                    return args[2]
            if name == "hasattr" and isinstance(args[0], Obj) and isinstance(args[1], str):
                return args[1] in args[0].attrs or args[0].cls.lookup(args[1]) is not None
            if name == "hasattr" and isinstance(args[0], Class) and isinstance(args[1], str):
                return args[0].lookup(args[1]) is not None or any(args[1] in k.class_assigns() for k in args[0].mro())
            if name == "type" and len(args) == 1 and isinstance(args[0], Obj):
                return args[0].cls
            if name == "type" and len(args) == 1 and type(args[0]) in (list, tuple, dict, set, str, int, float, bool, type(None)):
                return Sym("builtin:" + ("NoneType" if args[0] is None else type(args[0]).__name__))
        except (TypeError, ValueError):
            pass
        return self.external_call(name, args, kwargs, node)


_EXC_PARENTS = {
    "KeyError": "LookupError", "IndexError": "LookupError", "LookupError": "Exception", "ValueError": "Exception", "TypeError": "Exception",
    "AssertionError": "Exception", "AttributeError": "Exception", "RuntimeError": "Exception", "NotImplementedError": "RuntimeError",
    "FileNotFoundError": "OSError", "FileExistsError": "OSError", "PermissionError": "OSError", "IsADirectoryError": "OSError", "OSError": "Exception", "IOError": "Exception",
    "ZeroDivisionError": "ArithmeticError", "OverflowError": "ArithmeticError", "ArithmeticError": "Exception", "StopIteration": "Exception",
    "UnboundLocalError": "NameError", "NameError": "Exception", "UnicodeDecodeError": "ValueError", "Error": "Exception", "Deadlock": "Exception",
    "UnsupportedOperation": "OSError", "Exception": "BaseException", "KeyboardInterrupt": "BaseException", "SystemExit": "BaseException",
}


def _handler_catches(htype, exc_name: str) -> bool:
    """does  except <htype>:  catch an exception class named exc_name (builtin hierarchy; unknown
    classes are taken to derive from Exception)"""
    if htype is None:
        return True
    names = [dotted(x) or "" for x in (htype.elts if isinstance(htype, ast.Tuple) else [htype])]
    names = [n.split(".")[-1] for n in names]
    chain, cur = [], exc_name.split(".")[-1]
    for _ in range(8):
        chain.append(cur)
        if cur == "BaseException":
            break
        cur = _EXC_PARENTS.get(cur, "Exception")
    return any(n in chain for n in names)


_ABSTRACT_TYPES = {
    "integer": lambda v: False, "floating": lambda v: False, "number": lambda v: False, "generic": lambda v: False, "bool_": lambda v: False,
    "ndarray": lambda v: False, "unsignedinteger": lambda v: False, "signedinteger": lambda v: False,
    "Iterable": lambda v: isinstance(v, (list, tuple, dict, set, frozenset, str)),
    "Sequence": lambda v: isinstance(v, (list, tuple, str)),
    "Collection": lambda v: isinstance(v, (list, tuple, dict, set, frozenset, str)),
    "Sized": lambda v: isinstance(v, (list, tuple, dict, set, frozenset, str)),
    "Mapping": lambda v: isinstance(v, dict),
    "Set": lambda v: isinstance(v, (set, frozenset)),
    "Integral": lambda v: isinstance(v, int),
    "Real": lambda v: isinstance(v, (int, float, Fraction)),
    "Number": lambda v: isinstance(v, (int, float, Fraction)),
    "PathLike": lambda v: False,
}


def _transparent_decorator(dec: "Func") -> bool:
    """`dec` (a decorator, or a decorator factory) wraps a function so that every call passes the wrapper's
    own *args / **kwargs on unchanged and returns the wrapped function's result unchanged."""
    wrappers = [n for n in ast.walk(dec.node) if isinstance(n, ast.FunctionDef) and n is not dec.node and n.args.vararg is not None and n.args.kwarg is not None]
    if not wrappers:
        return False
    for w in wrappers:
        va, ka = w.args.vararg.arg, w.args.kwarg.arg
        calls = [c for c in ast.walk(w) if isinstance(c, ast.Call) and len(c.args) == 1 and isinstance(c.args[0], ast.Starred) and isinstance(c.args[0].value, ast.Name) and c.args[0].value.id == va]
        ok_calls = [c for c in calls if len(c.keywords) == 1 and c.keywords[0].arg is None and isinstance(c.keywords[0].value, ast.Name) and c.keywords[0].value.id == ka and isinstance(c.func, ast.Name)]
        if not ok_calls or len(ok_calls) != len(calls):
            return False
        # no rebinding / mutation of the two before the call, the result is returned as it is
        for n in ast.walk(w):
            if isinstance(n, ast.Name) and n.id in (va, ka) and isinstance(n.ctx, (ast.Store, ast.Del)):
                return False
            if isinstance(n, (ast.Subscript, ast.Attribute)) and isinstance(n.value, ast.Name) and n.value.id == ka and (isinstance(n.ctx, (ast.Store, ast.Del)) or (isinstance(n, ast.Attribute) and n.attr in ("pop", "update", "setdefault", "clear", "popitem"))):
                return False
        res_names = set()
        for n in ast.walk(w):
            if isinstance(n, ast.Assign) and n.value in ok_calls:
                res_names |= {t.id for t in n.targets if isinstance(t, ast.Name)}
        rets = [n for n in ast.walk(w) if isinstance(n, ast.Return)]
        if not rets or not all(r.value in ok_calls or (isinstance(r.value, ast.Name) and r.value.id in res_names) for r in rets):
            return False
    return True


import builtins as _bi

_BUILTIN_EXC = {n for n in dir(_bi) if isinstance(getattr(_bi, n), type) and issubclass(getattr(_bi, n), BaseException)}
for _n in _BUILTIN_EXC:
    _b = getattr(_bi, _n).__mro__[1].__name__
    if _n not in _EXC_PARENTS and _b != "object":
        _EXC_PARENTS[_n] = _b
_EXC_PARENTS["IOError"] = "Exception" if "IOError" not in _EXC_PARENTS else _EXC_PARENTS["IOError"]

_BUILTIN_SYMS = _BUILTIN_EXC | {
    "len", "int", "float", "bool", "str", "list", "tuple", "set", "dict", "max", "min", "abs", "sorted", "reversed",
    "range", "enumerate", "zip", "any", "all", "sum", "print", "hash", "round", "type", "hasattr", "getattr",
    "setattr", "isinstance", "issubclass", "open", "super", "object", "Exception", "NotImplementedError", "ValueError",
    "KeyError", "AssertionError", "RuntimeError", "TypeError", "id", "repr", "iter", "next", "map", "filter", "frozenset",
    "AttributeError", "UserWarning", "DeprecationWarning", "__name__", "__file__", "callable", "divmod", "slice", "IndexError", "FileNotFoundError", "StopIteration", "ZeroDivisionError", "bytes", "complex", "property", "staticmethod", "classmethod", "vars", "dir", "ord", "chr", "pow",
}


class _PyMethod:
    def __init__(self, obj, name):
        self.obj = obj
        self.name = name


class _DictMethod:
    def __init__(self, name, d):
        self.name = name
        self.d = d


class _DictView:
    def __init__(self, d, kind):
        self.d = d
        self.kind = kind

    def materialise(self):
        if self.kind == "keys":
            return list(self.d.keys())
        if self.kind == "values":
            return list(self.d.values())
        return list(self.d.items())

    def __iter__(self):
        return iter(self.materialise())


_LOCALS_CACHE: dict = {}


def _local_names(f) -> set:
    # cached on the function object (ids of nodes are reused once a program has been collected)
    d = f.__dict__
    if "_local_names" not in d:
        out = set()
        for n in _walk_no_nested(f.node):
            if isinstance(n, ast.Name) and isinstance(n.ctx, ast.Store):
                out.add(n.id)
        d["_local_names"] = out
    return d["_local_names"]


def _walk_no_nested(node):
    stack = [node]
    first = True
    while stack:
        n = stack.pop()
        if not first and isinstance(n, (ast.FunctionDef, ast.AsyncFunctionDef, ast.ClassDef, ast.Lambda)):
            continue
        first = False
        yield n
        stack.extend(ast.iter_child_nodes(n))


def _hashable(x):
    if isinstance(x, list):
        return tuple(_hashable(y) for y in x)
    if isinstance(x, set):
        return frozenset(x)
    return x


def _has_sym(x) -> bool:
    if isinstance(x, Sym):
        return True
    if isinstance(x, (list, tuple, set, frozenset)):
        return any(_has_sym(y) for y in x)
    if isinstance(x, dict):
        return any(_has_sym(y) for y in x.values())
    return False


def _as_load(t: ast.expr) -> ast.expr:
    import copy

    n = copy.deepcopy(t)
    for x in ast.walk(n):
        if hasattr(x, "ctx"):
            x.ctx = ast.Load()
    return n


# ----------------------------------------------------------------------------------------
# path enumeration
# ----------------------------------------------------------------------------------------


def enumerate_paths(make: Callable[[list[bool]], Interp], max_paths: int = 512) -> list[Outcome]:
    """Run an abstract evaluation for every feasible sequence of split decisions."""
    outs: list[Outcome] = []
    work: list[list[bool]] = [[]]
    seen: set = set()
    while work:
        prefix = work.pop()
        key = tuple(prefix)
        if key in seen:
            continue
        seen.add(key)
        it = make(prefix)
        out = it.run()
        outs.append(out)
        if len(outs) > max_paths:
            raise Undecided("too many paths")
        taken = [d for (_, _, d) in out.decisions]
        for i in range(len(prefix), len(taken)):
            alt = taken[:i] + [not taken[i]]
            work.append(alt)
    return outs
