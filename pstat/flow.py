"""L1: structured control-flow facts on the statement tree.

The repository uses only If/For/With/Try/Return/Raise/Assert/Continue/Break (no while, no
match, no generators in the pipeline), so control facts are derived syntax-directed:
 * path conditions (branch predicates that dominate a program point, including the negation
   of earlier sibling guards whose taken branch always leaves the block, and asserts);
 * finite-domain evaluation of boolean formulas with pluggable leaf interpretation;
 * a generic structured forward dataflow engine (state sets through If/For/Try/With).
"""

from __future__ import annotations

import ast
import itertools
from dataclasses import dataclass, field
from typing import Any, Callable, Iterable, Optional

from .model import Func, Program, Undecided, dotted, norm, walk_no_nested

# ----------------------------------------------------------------------------------------
# basic structure helpers
# ----------------------------------------------------------------------------------------

BLOCK_FIELDS = ("body", "orelse", "finalbody")


def child_blocks(st: ast.stmt) -> list[tuple[str, list[ast.stmt]]]:
    out = []
    for fld in BLOCK_FIELDS:
        b = getattr(st, fld, None)
        if isinstance(b, list) and b and isinstance(b[0], ast.stmt):
            out.append((fld, b))
    if isinstance(st, ast.Try):
        for i, h in enumerate(st.handlers):
            out.append((f"handler{i}", h.body))
    return out


def leaves(stmts: list[ast.stmt]) -> bool:
    """True if control never falls off the end of this block."""
    for st in stmts:
        if isinstance(st, (ast.Return, ast.Raise, ast.Continue, ast.Break)):
            return True
        if isinstance(st, ast.If):
            if st.orelse and leaves(st.body) and leaves(st.orelse):
                return True
        if isinstance(st, ast.With):
            if leaves(st.body):
                return True
        if isinstance(st, ast.Try):
            if st.finalbody and leaves(st.finalbody):
                return True
            if leaves(st.body) and all(leaves(h.body) for h in st.handlers):
                return True
    return False


def contains(node: ast.AST, target: ast.AST) -> bool:
    if node is target:
        return True
    for n in ast.walk(node):
        if n is target:
            return True
    return False


def stmt_chain(f: Func, target: ast.AST) -> list[tuple[ast.stmt | None, str, list[ast.stmt], int]]:
    """From the function body down to the statement containing `target`:
    list of (container statement or None, field, block, index of the child holding target)."""
    chain = []
    container: Optional[ast.stmt] = None
    fld = "body"
    block = f.node.body
    while True:
        idx = None
        for i, st in enumerate(block):
            if contains(st, target):
                idx = i
                break
        if idx is None:
            raise Undecided(f"target not found in {f.qual}")
        chain.append((container, fld, block, idx))
        st = block[idx]
        nxt = None
        for fl, b in child_blocks(st):
            if any(contains(s, target) for s in b):
                nxt = (st, fl, b)
                break
        if nxt is None:
            return chain
        container, fld, block = nxt


def stored_names(stmts: Iterable[ast.AST]) -> set[str]:
    out: set[str] = set()
    for st in stmts:
        for n in ast.walk(st):
            if isinstance(n, ast.Name) and isinstance(n.ctx, (ast.Store, ast.Del)):
                out.add(n.id)
            elif isinstance(n, (ast.Attribute, ast.Subscript)) and isinstance(n.ctx, (ast.Store, ast.Del)):
                d = dotted(n.value) if isinstance(n, ast.Subscript) else dotted(n)
                if d:
                    out.add(d)
                    out.add(d.split(".")[0])
    return out


def method_receivers(stmts: Iterable[ast.AST]) -> list[tuple[str, str, ast.Call]]:
    """(receiver dotted name, method name, call) for every method call in stmts."""
    out = []
    for st in stmts:
        for n in ast.walk(st):
            if isinstance(n, ast.Call) and isinstance(n.func, ast.Attribute):
                d = dotted(n.func.value)
                if d:
                    out.append((d, n.func.attr, n))
    return out


# ----------------------------------------------------------------------------------------
# path conditions
# ----------------------------------------------------------------------------------------


@dataclass
class Cond:
    expr: ast.expr
    polarity: bool
    origin: str  # 'branch' | 'guard' | 'assert'
    between: list[ast.stmt] = field(default_factory=list)  # statements executed between the test and the target

    def text(self) -> str:
        s = norm(self.expr)
        return s if self.polarity else f"not ({s})"


def path_condition(f: Func, target: ast.AST) -> list[Cond]:
    """Conjuncts that hold whenever control reaches `target` inside f."""
    chain = stmt_chain(f, target)
    conds: list[Cond] = []
    # statements executed before target, per level (prefix siblings), used for staleness
    for level, (container, fld, block, idx) in enumerate(chain):
        # the branch taken at the container
        if isinstance(container, ast.If):
            if fld == "body":
                conds.append(Cond(container.test, True, "branch"))
            elif fld == "orelse":
                conds.append(Cond(container.test, False, "branch"))
        elif isinstance(container, ast.While):
            if fld == "body":
                conds.append(Cond(container.test, True, "branch"))
        # earlier siblings
        for j in range(idx):
            st = block[j]
            if isinstance(st, ast.Assert):
                conds.append(Cond(st.test, True, "assert", list(block[j + 1 : idx])))
            elif isinstance(st, ast.If):
                bl, ol = leaves(st.body), bool(st.orelse) and leaves(st.orelse)
                if bl and not ol:
                    conds.append(Cond(st.test, False, "guard", list(block[j + 1 : idx])))
                elif ol and not bl:
                    conds.append(Cond(st.test, True, "guard", list(block[j + 1 : idx])))
    # complete the 'between' lists with the prefixes of deeper levels
    # (a cond created at level L is followed by all prefix statements of levels > L)
    level_of: list[int] = []
    # recompute levels for conds in creation order
    k = 0
    for level, (container, fld, block, idx) in enumerate(chain):
        n_here = 0
        if isinstance(container, ast.If) and fld in ("body", "orelse"):
            n_here += 1
        elif isinstance(container, ast.While) and fld == "body":
            n_here += 1
        for j in range(idx):
            st = block[j]
            if isinstance(st, ast.Assert):
                n_here += 1
            elif isinstance(st, ast.If):
                bl, ol = leaves(st.body), bool(st.orelse) and leaves(st.orelse)
                if bl != ol:
                    n_here += 1
        level_of += [level] * n_here
    for c, lv in zip(conds, level_of):
        if c.origin == "branch":
            # everything before target at this and deeper levels
            for level2 in range(lv, len(chain)):
                _, _, block2, idx2 = chain[level2]
                c.between += list(block2[:idx2])
        else:
            for level2 in range(lv + 1, len(chain)):
                _, _, block2, idx2 = chain[level2]
                c.between += list(block2[:idx2])
    for c in conds:
        c.between = _prune_leaving(c.between)
    return conds


def _prune_leaving(stmts: list[ast.stmt]) -> list[ast.stmt]:
    """Statements of a prefix that can have executed when control continues after it:
    branches of an `if` that always leave (return/raise/continue/break) are dropped."""
    out: list[ast.stmt] = []
    for st in stmts:
        if isinstance(st, ast.If):
            body = [] if leaves(st.body) else _prune_leaving(st.body)
            orelse = [] if (st.orelse and leaves(st.orelse)) else _prune_leaving(st.orelse)
            keep = ast.If(test=st.test, body=body or [ast.Pass()], orelse=orelse)
            ast.copy_location(keep, st)
            out.append(keep)
        else:
            out.append(st)
    return out


def free_names(e: ast.AST) -> set[str]:
    out = set()
    for n in ast.walk(e):
        if isinstance(n, ast.Name):
            out.add(n.id)
        d = dotted(n) if isinstance(n, ast.Attribute) else None
        if d:
            out.add(d)
    return out


def is_stale(c: Cond, pure_method: Callable[[str, str, ast.Call], bool] = lambda r, m, c: False) -> bool:
    """A condition is stale if a name it reads is re-bound, or an object it queries is touched
    by a non-pure method call, between the test and the target."""
    if not c.between:
        return False
    fn = free_names(c.expr)
    st = stored_names(c.between)
    if fn & st:
        return True
    for recv, meth, call in method_receivers(c.between):
        if recv in fn or recv.split(".")[0] in {x for x in fn if "." not in x and x != "self"} and recv in fn:
            if not pure_method(recv, meth, call):
                return True
    return False


# ----------------------------------------------------------------------------------------
# finite-domain evaluation of boolean formulas
# ----------------------------------------------------------------------------------------

Leaf = Callable[[dict], Any]


class Formula:
    """Evaluates boolean expression ASTs over an assignment of finite-domain variables.

    leaf(expr) -> None (not a leaf: descend structurally), or a callable assignment->bool.
    Unknown leaves become opaque boolean variables named by their normalised text.
    """

    def __init__(self, leaf: Callable[[ast.expr], Optional[Leaf]], domains: dict[str, list]):
        self.leaf = leaf
        self.domains = dict(domains)
        self.opaque: dict[str, str] = {}

    def _opaque(self, e: ast.expr) -> Leaf:
        key = "?" + norm(e)
        if key not in self.domains:
            self.domains[key] = [False, True]
            self.opaque[key] = norm(e)
        return lambda a, key=key: a[key]

    def compile(self, e: ast.expr) -> Leaf:
        lf = self.leaf(e)
        if lf is not None:
            return lf
        if isinstance(e, ast.BoolOp):
            parts = [self.compile(v) for v in e.values]
            if isinstance(e.op, ast.And):
                return lambda a: all(p(a) for p in parts)
            return lambda a: any(p(a) for p in parts)
        if isinstance(e, ast.UnaryOp) and isinstance(e.op, ast.Not):
            p = self.compile(e.operand)
            return lambda a: not p(a)
        if isinstance(e, ast.IfExp):
            t, b, o = self.compile(e.test), self.compile(e.body), self.compile(e.orelse)
            return lambda a: b(a) if t(a) else o(a)
        if isinstance(e, ast.Constant) and isinstance(e.value, (bool, type(None), int)):
            v = bool(e.value)
            return lambda a: v
        if isinstance(e, ast.Compare) and len(e.ops) > 1:
            # chain a < b < c  ==  a < b and b < c
            parts = []
            left = e.left
            for op, right in zip(e.ops, e.comparators):
                parts.append(self.compile(ast.Compare(left=left, ops=[op], comparators=[right])))
                left = right
            return lambda a: all(p(a) for p in parts)
        if isinstance(e, ast.Compare) and len(e.ops) == 1 and isinstance(e.ops[0], (ast.Eq, ast.Is, ast.NotEq, ast.IsNot)):
            # comparison of a boolean sub-formula with a boolean constant
            r = e.comparators[0]
            if isinstance(r, ast.Constant) and isinstance(r.value, bool):
                p = self.compile(e.left)
                want = r.value if isinstance(e.ops[0], (ast.Eq, ast.Is)) else not r.value
                return lambda a: p(a) == want
            # (boolean formula) == / != (boolean formula): equivalence / exclusive or
            l = e.left

            def boolish(x):
                return isinstance(x, (ast.Compare, ast.BoolOp)) or (isinstance(x, ast.UnaryOp) and isinstance(x.op, ast.Not))

            if (boolish(l) and (boolish(r) or self.leaf(r) is not None)) or (boolish(r) and self.leaf(l) is not None):
                p, q = self.compile(l), self.compile(r)
                same = isinstance(e.ops[0], (ast.Eq, ast.Is))
                return lambda a: (bool(p(a)) == bool(q(a))) == same
        return self._opaque(e)

    def assignments(self):
        keys = list(self.domains)
        for vals in itertools.product(*(self.domains[k] for k in keys)):
            yield dict(zip(keys, vals))

    def known_assignments(self):
        keys = [k for k in self.domains if not k.startswith("?")]
        for vals in itertools.product(*(self.domains[k] for k in keys)):
            yield dict(zip(keys, vals))

    def opaque_assignments(self):
        keys = [k for k in self.domains if k.startswith("?")]
        for vals in itertools.product(*(self.domains[k] for k in keys)):
            yield dict(zip(keys, vals))


def implication(form: Formula, premises: list[Leaf], conclusion: Leaf, feasible: Callable[[dict], bool] = lambda a: True):
    """Decide  premises => conclusion  over all assignments.

    Returns (verdict, witness): True = holds on every assignment; False = refuted for some
    assignment of the modelled variables under *every* valuation of the opaque atoms (a
    definite counterexample row); None = refuted only under some valuation of opaque atoms
    (undecided).  `feasible` prunes assignments of modelled variables that cannot occur.
    """
    undecided_w = None
    for k in form.known_assignments():
        if not feasible(k):
            continue
        all_refute = True
        some_refute = None
        for o in form.opaque_assignments():
            a = {**k, **o}
            if all(p(a) for p in premises) and not conclusion(a):
                some_refute = a
            else:
                all_refute = False
        if some_refute is not None and all_refute:
            return False, {kk: vv for kk, vv in some_refute.items() if not kk.startswith("?")}
        if some_refute is not None and undecided_w is None:
            undecided_w = dict(some_refute)
    if undecided_w is not None:
        return None, undecided_w
    return True, None


def truth_table(form: Formula, fn: Leaf, feasible: Callable[[dict], bool] = lambda a: True) -> dict:
    """{assignment tuple -> value} over the modelled variables; raises Undecided if the value
    depends on an opaque atom."""
    out = {}
    for k in form.known_assignments():
        if not feasible(k):
            continue
        vals = set()
        for o in form.opaque_assignments():
            vals.add(bool(fn({**k, **o})))
        if len(vals) > 1:
            raise Undecided(f"value depends on unmodelled atoms {sorted(form.opaque.values())}")
        out[tuple(sorted(k.items()))] = vals.pop()
    return out


# ----------------------------------------------------------------------------------------
# inlining of small predicate functions (AST substitution)
# ----------------------------------------------------------------------------------------


class _Subst(ast.NodeTransformer):
    def __init__(self, mapping: dict[str, ast.expr]):
        self.mapping = mapping

    def visit_Name(self, node: ast.Name):
        if isinstance(node.ctx, ast.Load) and node.id in self.mapping:
            return ast.copy_location(_clone(self.mapping[node.id]), node)
        return node


def _clone(e: ast.AST) -> ast.AST:
    import copy

    return copy.deepcopy(e)


def substitute(e: ast.expr, mapping: dict[str, ast.expr]) -> ast.expr:
    return ast.fix_missing_locations(_Subst(mapping).visit(_clone(e)))


def inline_expr_function(callee: Func, args: dict[str, ast.expr], recv: Optional[ast.expr]) -> Optional[ast.expr]:
    """If callee's body is a sequence of single-assignment temporaries followed by
    `return <expr>` (optionally in the if/else-return form), return that expression with
    parameters replaced by the actual argument expressions; else None."""
    body = [s for s in callee.node.body if not (isinstance(s, ast.Expr) and isinstance(s.value, ast.Constant))]
    mapping: dict[str, ast.expr] = {}
    for p in callee.call_params:
        if p.name in args:
            mapping[p.name] = args[p.name]
        elif p.default is not None:
            mapping[p.name] = p.default
        elif p.kind in ("vararg", "kwarg"):
            continue
        else:
            return None
    if callee.self_name and recv is not None:
        mapping[callee.self_name] = recv

    def conv(stmts: list[ast.stmt], mp: dict[str, ast.expr]) -> Optional[ast.expr]:
        mp = dict(mp)
        for i, st in enumerate(stmts):
            if isinstance(st, ast.Assign) and len(st.targets) == 1 and isinstance(st.targets[0], ast.Name):
                mp[st.targets[0].id] = substitute(st.value, mp)
            elif isinstance(st, ast.AnnAssign) and isinstance(st.target, ast.Name) and st.value is not None:
                mp[st.target.id] = substitute(st.value, mp)
            elif isinstance(st, ast.Return) and st.value is not None:
                return substitute(st.value, mp)
            elif isinstance(st, ast.If):
                rest = stmts[i + 1 :]
                b = conv(st.body + ([] if leaves(st.body) else rest), mp)
                o = conv((st.orelse if st.orelse else []) + ([] if (st.orelse and leaves(st.orelse)) else rest), mp)
                if b is None or o is None:
                    return None
                return ast.fix_missing_locations(ast.IfExp(test=substitute(st.test, mp), body=b, orelse=o))
            else:
                return None
        return None

    return conv(body, mapping)


# ----------------------------------------------------------------------------------------
# structured forward dataflow
# ----------------------------------------------------------------------------------------


@dataclass
class FlowResult:
    normal: list  # states falling off the end
    returns: list[tuple[Any, ast.Return]]  # (state, node)
    raises: list[tuple[Any, ast.stmt]]
    breaks: list = field(default_factory=list)
    continues: list = field(default_factory=list)


class ForwardFlow:
    """Path-sensitive-by-state-set forward analysis over the statement tree.

    Subclasses implement
        transfer(stmt, state) -> iterable of states         (simple statements)
        branch(test, state)   -> (states_if_true, states_if_false)
    States must be hashable.  Loops are iterated to a fixed point on the state set.
    """

    max_states = 4096

    def transfer(self, st: ast.stmt, state):
        return [state]

    def branch(self, test: ast.expr, state):
        return [state], [state]

    def enter_with(self, st: ast.With, state):
        return [state]

    def exit_with(self, st: ast.With, state):
        return [state]

    def on_raise_in_try(self, st: ast.Try, state):
        return [state]

    def loop_bind(self, st: ast.For, state):
        return [state]

    def run_block(self, stmts: list[ast.stmt], states: list) -> FlowResult:
        res = FlowResult([], [], [])
        cur = _dedup(states)
        for st in stmts:
            if not cur:
                break
            nxt: list = []
            for s in cur:
                r = self.run_stmt(st, s)
                nxt += r.normal
                res.returns += r.returns
                res.raises += r.raises
                res.breaks += r.breaks
                res.continues += r.continues
            cur = _dedup(nxt)
            if len(cur) > self.max_states:
                raise Undecided("state explosion")
        res.normal = cur
        return res

    def run_stmt(self, st: ast.stmt, s) -> FlowResult:
        if isinstance(st, ast.Return):
            outs = list(self.transfer(st, s))
            return FlowResult([], [(o, st) for o in outs], [])
        if isinstance(st, ast.Raise):
            outs = list(self.transfer(st, s))
            return FlowResult([], [], [(o, st) for o in outs])
        if isinstance(st, ast.Continue):
            return FlowResult([], [], [], [], [s])
        if isinstance(st, ast.Break):
            return FlowResult([], [], [], [s], [])
        if isinstance(st, ast.If):
            t, f = self.branch(st.test, s)
            rb = self.run_block(st.body, list(t))
            ro = self.run_block(st.orelse, list(f)) if st.orelse else FlowResult(list(f), [], [])
            return FlowResult(_dedup(rb.normal + ro.normal), rb.returns + ro.returns, rb.raises + ro.raises, rb.breaks + ro.breaks, rb.continues + ro.continues)
        if isinstance(st, (ast.For, ast.While)):
            res = FlowResult([], [], [])
            seen: set = set()
            work = [s]
            exits = [s]  # zero iterations
            if isinstance(st, ast.While):
                exits = []
            while work:
                x = work.pop()
                if x in seen:
                    continue
                seen.add(x)
                if len(seen) > self.max_states:
                    raise Undecided("loop state explosion")
                if isinstance(st, ast.For):
                    entry = list(self.loop_bind(st, x))
                    bexit: list = []
                else:
                    entry, bexit = self.branch(st.test, x)
                    entry, bexit = list(entry), list(bexit)
                    exits += bexit
                rb = self.run_block(st.body, entry)
                res.returns += rb.returns
                res.raises += rb.raises
                after = rb.normal + rb.continues
                exits += rb.breaks
                for a in after:
                    if isinstance(st, ast.For):
                        exits.append(a)
                    work.append(a)
            if st.orelse:
                ro = self.run_block(st.orelse, _dedup(exits))
                res.normal = ro.normal
                res.returns += ro.returns
                res.raises += ro.raises
            else:
                res.normal = _dedup(exits)
            return res
        if isinstance(st, ast.With):
            ent = list(self.enter_with(st, s))
            rb = self.run_block(st.body, ent)
            out = FlowResult([], [], [])
            for x in rb.normal:
                out.normal += list(self.exit_with(st, x))
            out.returns = [(y, n) for (x, n) in rb.returns for y in self.exit_with(st, x)]
            out.raises = [(y, n) for (x, n) in rb.raises for y in self.exit_with(st, x)]
            out.breaks = [y for x in rb.breaks for y in self.exit_with(st, x)]
            out.continues = [y for x in rb.continues for y in self.exit_with(st, x)]
            out.normal = _dedup(out.normal)
            return out
        if isinstance(st, ast.Try):
            rb = self.run_block(st.body, [s])
            out = FlowResult(list(rb.normal), list(rb.returns), [], list(rb.breaks), list(rb.continues))
            # any statement of the body may raise: handlers start from the entry state and every
            # intermediate state (approximated by entry + body-normal + explicit raises)
            hstates = _dedup([s] + rb.normal + [x for x, _ in rb.raises])
            hstates = _dedup([y for x in hstates for y in self.on_raise_in_try(st, x)])
            if st.handlers:
                for h in st.handlers:
                    rh = self.run_block(h.body, hstates)
                    out.normal += rh.normal
                    out.returns += rh.returns
                    out.raises += rh.raises
                    out.breaks += rh.breaks
                    out.continues += rh.continues
            else:
                out.raises += rb.raises
            if st.orelse:
                ro = self.run_block(st.orelse, rb.normal)
                out.normal = [x for x in out.normal if x not in rb.normal] + ro.normal
                out.returns += ro.returns
                out.raises += ro.raises
            if st.finalbody:
                rf = self.run_block(st.finalbody, _dedup(out.normal))
                out.normal = rf.normal
                out.returns += rf.returns
                out.raises += rf.raises
            out.normal = _dedup(out.normal)
            return out
        if isinstance(st, (ast.FunctionDef, ast.AsyncFunctionDef, ast.ClassDef)):
            return FlowResult(list(self.transfer(st, s)), [], [])
        return FlowResult(_dedup(list(self.transfer(st, s))), [], [])

    def run_function(self, f: Func, init_states: list) -> FlowResult:
        return self.run_block(f.node.body, init_states)


def _dedup(xs: list) -> list:
    seen = set()
    out = []
    for x in xs:
        if x not in seen:
            seen.add(x)
            out.append(x)
    return out
